"""C09 - AXI port: reservation discipline, response-after-data, single driver of the shared native command, RMW merge, addresses."""
from ..ruleutil import *

AXI = "litedram.frontend.axi"


def wview(ctx, rmw):
    return elab(ctx, AXI, "LiteDRAMAXI2NativeW", kwargs={"axi": pobj("axi"), "port": pobj("port"), "buffer_depth": Sym("buffer_depth"),
                                                         "base_address": Sym("base_address"), "with_read_modify_write": Const(rmw)},
                overrides={"port.data_width": Const(32), "len(axi.w.strb)": Const(4), "len(w_buffer.sink.strb)": Const(4)})


def rview(ctx, rmw):
    return elab(ctx, AXI, "LiteDRAMAXI2NativeR", kwargs={"axi": pobj("axi"), "port": pobj("port"), "buffer_depth": Sym("buffer_depth"),
                                                         "base_address": Sym("base_address"), "with_read_modify_write": Const(rmw)},
                overrides={"port.data_width": Const(32)})


def single(v, k):
    ds = [d for d in v.drivers(k) if not d.guards]
    return ds[0].value if len(ds) >= 1 else None


def level_counter(v, ob, tag, lvl, q, dq):
    ds = v.drivers(lvl)
    inc = [d for d in ds if lin_eq(d.value, Op("+", (d.target, Const(1))))]
    dec = [d for d in ds if lin_eq(d.value, Op("-", (d.target, Const(1))))]
    ok = len(ds) == 2 and len(inc) == 1 and len(dec) == 1 and v.guard_keys(inc[0], False) == {q, "~" + dq} and v.guard_keys(dec[0], False) == {"~" + q, dq}
    ob.instance("%s reservation counter" % tag, [str(d) for d in ds])
    if not ok:
        ob.refute("%s:level-counter" % tag, "%s: the reservation counter %s is not +1 on queue&~dequeue / -1 on dequeue&~queue: %s" % (tag, lvl, [str(d) for d in ds]),
                  ds[0].loc if ds else None)


def write_path(ctx):
    ob1 = ctx.ob("C09.1", "write reservation: a write command is offered only when aw.valid and more data beats are buffered than already reserved "
                          "(w_buffer.level > reserved) and the arbiter grants it; the reservation counter is +1 exactly on fire(port.cmd)&we and -1 exactly on "
                          "the buffer pop; the SAME gate (reserved != 0 | reserving now) sits on port.wdata.valid and on the buffer's source.ready", 6)
    ob2 = ctx.ob("C09.2", "write response after data: the B response is pushed (and the ID popped) exactly when the LAST beat leaves the write buffer "
                          "towards the port (source.valid & source.last & source.ready of the buffer itself); the ID is pushed on fire(aw)&first", 3)
    for rmw in (False, True):
        v = wview(ctx, rmw)
        tag = "rmw=%s" % rmw
        v0 = v
        # cmd_request
        cr = v.single_comb_def(Sym("cmd_request"))
        ck = litset(conj(cr)) if cr is not None else set()
        ob1.instance("%s cmd_request" % tag, sorted(ck))
        if not {"aw.valid", "can_write"} <= ck:
            ob1.refute("%s:cmd_request" % tag, "write cmd_request is %s, expected aw.valid & can_write" % sorted(ck), None)
        cw = [d for d in v.drivers("can_write") if not d.guards]
        cwk = key(cw[0].value) if cw else None
        ob1.instance("%s can_write" % tag, cwk)
        if not cw or not (isinstance(cw[0].value, Op) and cw[0].value.op in (">", "<") and {key(a) for a in cw[0].value.args} == {"w_buffer.level", "w_buffer_level"}
                          and ((cw[0].value.op == ">" and key(cw[0].value.args[0]) == "w_buffer.level") or (cw[0].value.op == "<" and key(cw[0].value.args[1]) == "w_buffer.level"))):
            ob1.refute("%s:can_write" % tag, "can_write is %s, expected w_buffer.level > w_buffer_level (a command only for a beat that is already buffered and "
                       "not yet reserved)" % cwk, cw[0].loc if cw else None)
        pv = [d for d in v.drivers("port.cmd.valid") if d.fsm is None]
        for d in pv:
            g = v.guard_keys(d, False)
            ob1.instance("%s port.cmd.valid (regular path)" % tag, sorted(g))
            if g != {"cmd_request", "cmd_grant"} or not is1(d.value):
                ob1.refute("%s:cmd-valid" % tag, "the regular write path drives port.cmd.valid under %s, expected cmd_request & cmd_grant" % sorted(g), d.loc)
        q = v.single_comb_def(Sym("w_buffer_queue"))
        dq = v.single_comb_def(Sym("w_buffer_dequeue"))
        if litset(conj(q)) != {"port.cmd.valid", "port.cmd.ready", "port.cmd.we"} if q is not None else True:
            ob1.refute("%s:queue" % tag, "reservation is taken on %s, expected fire(port.cmd) & we" % (key(q) if q is not None else None), None)
        if litset(conj(dq)) != {"w_buffer.source.valid", "w_buffer.source.ready"} if dq is not None else True:
            ob1.refute("%s:dequeue" % tag, "reservation is released on %s, expected the buffer pop" % (key(dq) if dq is not None else None), None)
        level_counter(v, ob1, tag, "w_buffer_level", "w_buffer_queue", "w_buffer_dequeue")
        send = v.single_comb_def(Sym("w_buffer_send"))
        sk = litset(disj(send)) if send is not None else set()
        wv = single(v, "port.wdata.valid")
        sr = single(v, "w_buffer.source.ready")
        ob1.instance("%s data gate" % tag, {"w_buffer_send": sorted(sk), "wdata.valid": key(wv) if wv is not None else None, "source.ready": key(sr) if sr is not None else None})
        if sk != {"w_buffer_level", "w_buffer_queue"}:
            ob1.refute("%s:send-gate" % tag, "the data gate is %s, expected (reserved != 0) | reserving-now" % sorted(sk), None)
        if wv is None or litset(conj(wv)) != {"w_buffer.source.valid", "w_buffer_send"} or sr is None or litset(conj(sr)) != {"port.wdata.ready", "w_buffer_send"}:
            ob1.refute("%s:fork-gate" % tag, "port.wdata.valid = %s and w_buffer.source.ready = %s are not gated by the same reservation term: a beat can leave the "
                       "buffer without being offered to the port (or be offered before its command)" % (key(wv) if wv is not None else None, key(sr) if sr is not None else None), None)
        # C09.2
        rp = [d for d in v.drivers("resp_buffer.sink.valid") if is1(d.value)]
        ip = [d for d in v.drivers("id_buffer.source.ready") if is1(d.value)]
        want = {"w_buffer.source.valid", "w_buffer.source.last", "w_buffer.source.ready"}
        for what, ds in (("B response push", rp), ("write ID pop", ip)):
            if not ob2.need(len(ds) == 1, "%s: %s not found" % (tag, what)):
                continue
            g = v.guard_keys(ds[0], False)
            ob2.instance("%s %s" % (tag, what), sorted(g))
            if g != want:
                ob2.refute("%s:%s" % (tag, what.replace(" ", "-")), "%s happens under %s, expected %s: the response must be produced when the last beat is really "
                           "handed to the memory port (the buffer's own ready includes the reservation gate)" % (what, sorted(g), sorted(want)), ds[0].loc)
        idp = single(v, "id_buffer.sink.valid")
        if idp is None or litset(conj(idp)) != {"aw.valid", "aw.first", "aw.ready"}:
            ob2.refute("%s:id-push" % tag, "the write ID is pushed under %s, expected aw.valid & aw.first & aw.ready" % (key(idp) if idp is not None else None), None)
        rid = single(v, "resp_buffer.sink.id")
        rl = [d for d in v.drivers("resp_buffer.sink.id")]
        if not rl or key(rl[0].value) != "id_buffer.source.id":
            ob2.refute("%s:resp-id" % tag, "the response ID is not taken from the ID FIFO", None)


def read_path(ctx):
    ob = ctx.ob("C09.3", "read reservation: a read command is offered only while reserved != buffer_depth (no weaker condition), the reservation "
                         "bound, the read data buffer depth and the ID/last FIFO depth are the same term; ID/last pushed on fire(ar), popped on fire(axi.r); "
                         "returned data enters the buffer by a whole-record connect", 5)
    for rmw in (False, True):
        v = rview(ctx, rmw)
        tag = "rmw=%s" % rmw
        cr = [d for d in v.drivers("can_read") if not d.guards]
        val = cr[0].value if cr else None
        ob.instance("%s can_read" % tag, key(val) if val is not None else None)
        good = isinstance(val, Op) and val.op in ("!=", "<") and {key(a) for a in val.args} == {"r_buffer_level", "buffer_depth"} and \
            (val.op == "!=" or key(val.args[0]) == "r_buffer_level")
        if not good:
            ob.refute("%s:can_read" % tag, "can_read is %s, expected exactly r_buffer_level != buffer_depth: any weaker condition lets a command through when "
                      "the reservation (and the equally deep ID/last FIFO) is full, so an ID/last entry or a data word is lost" % (key(val) if val is not None else None),
                      cr[0].loc if cr else None)
        fifos = {str(o): o for o in v.d.objs if o.cls == "SyncFIFO"}
        rb, ib = fifos.get("r_buffer"), fifos.get("id_buffer")
        if ob.need(rb is not None and ib is not None, "%s: r_buffer / id_buffer not found" % tag):
            d1 = rb.kwargs.get("depth", rb.args[1] if len(rb.args) > 1 else None)
            d2 = ib.kwargs.get("depth", ib.args[1] if len(ib.args) > 1 else None)
            ob.instance("%s depths" % tag, {"r_buffer": key(d1), "id_buffer": key(d2)})
            if key(d1) != "buffer_depth" or key(d2) != "buffer_depth":
                ob.refute("%s:depths" % tag, "read data buffer depth %s / ID FIFO depth %s differ from the reservation bound buffer_depth" % (key(d1), key(d2)), rb.loc)
        q = v.single_comb_def(Sym("r_buffer_queue")) or single(v, "r_buffer_queue")
        dq = v.single_comb_def(Sym("r_buffer_dequeue"))
        if q is None or litset(conj(q)) != {"port.cmd.valid", "port.cmd.ready", "~port.cmd.we"}:
            ob.refute("%s:queue" % tag, "read reservation is taken on %s, expected fire(port.cmd) & ~we" % (key(q) if q is not None else None), None)
        if dq is None or litset(conj(dq)) != {"r_buffer.source.valid", "r_buffer.source.ready"}:
            ob.refute("%s:dequeue" % tag, "read reservation is released on %s, expected the buffer pop" % (key(dq) if dq is not None else None), None)
        level_counter(v, ob, tag, "r_buffer_level", "r_buffer_queue", "r_buffer_dequeue")
        ip = single(v, "id_buffer.sink.valid")
        io = single(v, "id_buffer.source.ready")
        if ip is None or litset(conj(ip)) != {"ar.valid", "ar.ready"} or io is None or litset(conj(io)) != {"axi.r.valid", "axi.r.ready"}:
            ob.refute("%s:id-fifo" % tag, "read ID/last FIFO is pushed on %s / popped on %s, expected fire(ar) / fire(axi.r)" %
                      (key(ip) if ip is not None else None, key(io) if io is not None else None), None)
        for f, src in (("axi.r.last", "id_buffer.source.last"), ("axi.r.id", "id_buffer.source.id"), ("id_buffer.sink.last", "ar.last"), ("id_buffer.sink.id", "ar.id")):
            t = single(v, f)
            if t is None or key(t) != src:
                ob.refute("%s:%s" % (tag, f), "%s is %s, expected %s" % (f, key(t) if t is not None else None, src), None)
        c1 = find_connect(v, src="port.rdata", dst="r_buffer.sink")
        c2 = find_connect(v, src="r_buffer.source", dst="axi.r")
        if len(c1) != 1 or (c1[0].stmt.omit and c1[0].stmt.omit & {"valid", "ready", "data"}) or len(c2) != 1 or (c2[0].stmt.omit and c2[0].stmt.omit & {"valid", "ready", "data"}):
            ob.refute("%s:rdata-path" % tag, "returned data is not forwarded port.rdata -> r_buffer -> axi.r by whole-record connects", None)
        cq = v.single_comb_def(Sym("cmd_request"))
        if cq is None or not {"ar.valid", "can_read"} <= litset(conj(cq)):
            ob.refute("%s:cmd_request" % tag, "read cmd_request is %s, expected ar.valid & can_read" % (key(cq) if cq is not None else None), None)


def shared_cmd(ctx):
    ob4 = ctx.ob("C09.4", "single driver of the shared native command: the write and read paths drive port.cmd only under cmd_request & cmd_grant with "
                          "grants arbiter.grant == i for distinct i; every read-modify-write state that drives port.cmd asserts rmw_request, and "
                          "rmw_request forces can_write and can_read (hence both cmd_requests) to 0", 5)
    ob5 = ctx.ob("C09.5", "read-modify-write merge is (rdata & ~mask) | (wdata & mask) with mask = each strobe bit replicated over its byte, the RMW "
                          "write uses full strobes", 3)
    ob6 = ctx.ob("C09.6", "every native command address is (axi address - base_address) >> log2(bytes per word)", 4)
    t = elab(ctx, AXI, "LiteDRAMAXI2Native", kwargs={"axi": pobj("axi"), "port": pobj("port"), "w_buffer_depth": Sym("wd"), "r_buffer_depth": Sym("rd"),
                                                     "base_address": Sym("base_address"), "with_read_modify_write": Const(True)},
             overrides={"port.data_width": Const(32), "len(axi.w.strb)": Const(4), "len(w_buffer.sink.strb)": Const(4), "len(write.w_buffer.sink.strb)": Const(4)})
    grants = {}
    for side in ("write", "read"):
        d = t.drivers("%s.cmd_grant" % side)
        if ob4.need(len(d) == 1, "%s.cmd_grant driver not found" % side):
            grants[side] = key(d[0].value)
    ob4.instance("grants", grants)
    if len(set(grants.values())) != len(grants) or not all("arbiter.grant" in g or "grant" in g for g in grants.values()):
        ob4.refute("grants", "write and read paths are granted by %s: not two distinct values of one arbiter" % grants, None)
    w = wview(ctx, True)
    r = rview(ctx, True)
    fs = w.fsms("")
    if ob4.need(len(fs) == 1, "RMW FSM not found"):
        f = fs[0]
        for st in f.states:
            ls = w.fsm_leaves(f, st)
            drives = [l for l in ls if l.kind == "assign" and key(l.target).startswith("port.cmd.") and not is0(l.value)]
            req = [l for l in ls if l.kind == "assign" and key(l.target) == "rmw_request" and is1(l.value) and not l.guards]
            if drives:
                ob4.instance("RMW state %s" % st, {"drives": sorted({key(l.target) for l in drives}), "rmw_request": bool(req)})
                if not req:
                    ob4.refute("rmw-state:%s" % st, "RMW state %s drives the shared port.cmd without asserting rmw_request: the regular write/read path can drive "
                               "it in the same cycle and one of the two commands sees a ready that belongs to the other" % st, drives[0].loc)
    for v, sig in ((w, "can_write"), (r, "can_read")):
        z = [d for d in v.drivers(sig) if is0(d.value) and "rmw_request" in v.guard_keys(d, False)]
        nz = [d for d in v.drivers(sig) if not is0(d.value)]
        later = z and nz and all(zz.order > n.order for zz in z for n in nz)
        ob4.instance("%s forced low by rmw_request" % sig, [str(d) for d in z])
        if not z or not later:
            ob4.refute("rmw-blocks:%s" % sig, "rmw_request does not force %s to 0 (as the last, winning assignment): regular commands can be issued while a "
                       "read-modify-write sequence owns the port" % sig, (z or nz or [None])[0].loc if (z or nz) else None)
    # C09.5
    merge = [l for l in w.leaves if l.kind == "nextvalue" and key(l.target) == "rmw_data"]
    if ob5.need(len(merge) == 1, "RMW merge assignment not found"):
        val = merge[0].value
        parts = val.args if isinstance(val, Op) and val.op == "|" else ()
        ks = sorted(litset(conj(p)) for p in parts) if parts else []
        ob5.instance("merge", key(val))
        if sorted(map(sorted, ks)) != sorted([sorted({"port.rdata.data", "~rmw_mask"}), sorted({"axi.w.data", "rmw_mask"})]):
            ob5.refute("merge", "RMW merge is %s, expected (port.rdata.data & ~rmw_mask) | (axi.w.data & rmw_mask): with the polarity swapped the bytes the "
                       "master wrote are replaced by the old memory contents" % key(val), merge[0].loc)
    masks = [l for l in w.leaves if l.kind == "assign" and isinstance(l.target, Op) and l.target.op == "slice" and key(l.target.args[0]) == "rmw_mask"]
    okm = len(masks) == 4
    for i, l in enumerate(sorted(masks, key=lambda l_: l_.target.args[1].v if isinstance(l_.target.args[1], Const) else 0)):
        lo, hi = l.target.args[1], l.target.args[2]
        if not (isinstance(lo, Const) and lo.v == 8 * i and isinstance(hi, Const) and hi.v == 8 * (i + 1) and key(l.value) == "Replicate(axi.w.strb[%d], 8)" % i):
            okm = False
    ob5.instance("mask bytes", [str(l) for l in masks[:2]])
    if not okm:
        ob5.refute("mask", "rmw_mask is not built as strobe bit i replicated over bits [8i, 8i+8): %s" % [str(l) for l in masks], masks[0].loc if masks else None)
    st = [l for l in w.leaves if l.kind == "assign" and key(l.target) == "w_buffer.sink.strb"]
    ob5.instance("RMW write strobes", [key(l.value) for l in st])
    if not st or any(not (isinstance(l.value, Const) and l.value.v == 15) for l in st):
        ob5.refute("rmw-strobes", "the RMW write does not use full strobes: %s" % [key(l.value) for l in st], st[0].loc if st else None)
    # C09.6
    n = 0
    for v, side, a in ((w, "write", "aw.addr"), (r, "read", "ar.addr")):
        for l in v.leaves:
            if l.kind == "assign" and key(l.target) == "port.cmd.addr":
                n += 1
                val = l.value
                good = isinstance(val, Op) and val.op == ">>" and key(val.args[1]) == "2" and lin_eq(val.args[0], Op("-", (Sym(a), Sym("base_address"))))
                ob6.instance("%s %s" % (side, "state " + str(l.state) if l.fsm is not None else "regular path"), key(val))
                if not good:
                    ob6.refute("addr:%s:%s" % (side, l.state), "%s command address is %s, expected (%s - base_address) >> 2 for a 32-bit port" % (side, key(val), a), l.loc)
    if n < 4:
        ob6.unknown("only %d command address sites found" % n)


def run(ctx):
    write_path(ctx)
    read_path(ctx)
    shared_cmd(ctx)
    ctx.assume("burst address sequences come from LiteX AXIBurst2Beat (outside the repository); buffer_depth >= 2 (a depth-1 SyncFIFO has a constant-0 level); "
               "data values and stall interleavings are not decided")
