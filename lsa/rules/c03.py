"""C03 - datasheet timing minimums: gates, latencies and timelines (symbolic latency calculus)."""
from ..ruleutil import *

BM = ("litedram.core.bankmachine", "BankMachine")
MUX = ("litedram.core.multiplexer", "Multiplexer")
COMMON = "litedram.common"
REFR = "litedram.core.refresher"


# ---------------------------------------------------------------------------------------------------
# C03.1 gate contract
# ---------------------------------------------------------------------------------------------------

def gate_contract(ctx):
    ob = ctx.ob("C03.1", "tXXDController: after `valid` the gate's `ready` stays low so that the next gated event is at least "
                         "`txxd` cycles later (derived from load value, decrement step and terminal compare); "
                         "tFAWController: window length = tfaw, ready withheld at 4 activates", 2)
    v = elab(ctx, COMMON, "tXXDController", kwargs={"txxd": Sym("txxd")})
    vv = v.variant_map({"(txxd isnot None)": True})
    top = vv.top
    valid, ready = top.attrs.get("valid"), top.attrs.get("ready")
    if not ob.need(valid is not None and ready is not None, "tXXDController lost its valid/ready attributes"):
        return
    rd = vv.drivers(ready)
    counters = [k for k, ls in vv.defs.items() if k not in (key(ready), key(valid))]
    if not ob.need(len(counters) == 1, "expected exactly one counter register in tXXDController, found %s" % counters):
        return
    ck = counters[0]
    cd = vv.defs[ck]
    load = dec = None
    for l in cd:
        g = litset(vv.guard_lits(l, False))
        if g == {key(valid)}:
            load = l
        elif g == {"~" + key(valid), "~" + key(ready)}:
            dec = l
    if not ob.need(load is not None and dec is not None and len(cd) == 2,
                   "counter drivers do not match the down-counter template (load under valid, decrement under ~valid & ~ready)"):
        return
    step = lin_diff(dec.target, dec.value)
    if not ob.need(step is not None and step.is_const() and step.constval() == 1, "decrement step is not 1: %s" % dec):
        return
    # ready drivers, classified by what they do when a new `valid` arrives / while counting down
    term = None
    ok_shape = True
    clears_on_valid = False
    vk, rk = key(valid), key(ready)
    load_zero = lkey(literal(Op("==", (load.value, Const(0)))))
    for l in rd:
        lits = vv.guard_lits(l, False)
        g = litset(lits)
        if vk in g:
            rest = g - {vk}
            if is0(l.value):
                clears_on_valid = True
            elif is1(l.value):
                if not (rest == {load_zero}):
                    ob.refute("ready-set-on-valid", "gate raises `ready` in the cycle after `valid` although the load value is not "
                              "known to be zero: %s" % l, l.loc, str(l))
            else:
                # value form  ready <= (load == 0)
                if lkey(literal(l.value)) == load_zero and not rest:
                    clears_on_valid = True
                else:
                    ok_shape = False
        elif "~" + vk in g:
            rest = [x for x in lits if lkey(x) not in ("~" + vk, "~" + rk)]
            if "~" + rk in g and is1(l.value) and len(rest) == 1 and rest[0][1] and isinstance(rest[0][0], Op) and rest[0][0].op == "==":
                a, b = rest[0][0].args
                if key(a) == ck:
                    term = b
                elif key(b) == ck:
                    term = a
                else:
                    ok_shape = False
            elif is0(l.value):
                pass
            else:
                ok_shape = False
        else:
            # not conditioned on `valid` at all: it can fire in the very cycle a new command re-arms the gate
            if not is0(l.value):
                later_clear = [m for m in rd if m.order > l.order and vk in litset(vv.guard_lits(m, False)) and is0(m.value)]
                if not later_clear:
                    ob.refute("ready-raised-despite-valid", "`%s` can raise `ready` in a cycle in which `valid` re-arms the gate (it is not conditioned on ~valid "
                              "and no later assignment clears it): a command accepted exactly when the count-down ends leaves the gate open" % l, l.loc, str(l))
                if "~" + rk in g:
                    rest = [x for x in lits if lkey(x) != "~" + rk]
                    if len(rest) == 1 and rest[0][1] and isinstance(rest[0][0], Op) and rest[0][0].op == "==":
                        a, b = rest[0][0].args
                        term = b if key(a) == ck else (a if key(b) == ck else term)
    if not ob.need(ok_shape and term is not None, "ready drivers do not match the gate template: %s" % [str(l) for l in rd]):
        return
    if not clears_on_valid:
        ob.refute("ready-not-cleared", "`ready` is never cleared when `valid` is seen", load.loc)
    # spacing = (load - term)/step + 2  must be >= txxd
    spacing = Op("+", (Op("-", (load.value, term)), Const(2)))
    ge = lin_ge(spacing, Sym("txxd"))
    ob.instance("tXXDController", {"load": str(load.value), "terminal": str(term), "derived_min_spacing": key(spacing), ">= txxd": ge})
    if ge is False:
        ob.refute("spacing", "derived minimum spacing %s is shorter than txxd (load %s, terminal compare %s)" % (key(spacing), load.value, term),
                  load.loc, {"load": str(load.value), "terminal": str(term)})
    elif ge is None:
        ob.unknown("cannot compare derived spacing %s with txxd" % key(spacing))
    # ---- tFAW ----
    f = elab(ctx, COMMON, "tFAWController", kwargs={"tfaw": Sym("tfaw")}).variant_map({"(tfaw isnot None)": True})
    ft = f.top
    fvalid, fready = ft.attrs.get("valid"), ft.attrs.get("ready")
    if not ob.need(fvalid is not None and fready is not None, "tFAWController lost valid/ready"):
        return
    shift = [l for l in f.leaves if l.kind == "assign" and l.domain == "sync" and isinstance(l.value, Op) and l.value.op == "Cat"
             and len(l.value.args) == 2 and l.value.args[0] is fvalid and l.value.args[1] is l.target and not l.guards]
    if not ob.need(len(shift) == 1, "tFAW window shift register `window <= Cat(valid, window)` not found"):
        return
    window = shift[0].target
    w = f.d.names.get(str(window))
    wwidth = w.args[0] if (isinstance(window, Obj) and window.args) else None
    if wwidth is None or not lin_eq(wwidth, Sym("tfaw")):
        ob.refute("window-length", "tFAW window register is %s bits, not tfaw" % (wwidth,), shift[0].loc)
    # ready may be raised only while the window (after this cycle's activate) holds fewer than 4 activates: evaluate the drivers of `ready`
    # for every number N of activates in the window and both values of `valid` (last assignment wins)
    rds = sorted(f.drivers(fready), key=lambda l_: l_.order)
    CNT = None
    bad_shape = None
    cmpops = {"<": lambda x, y: x < y, "<=": lambda x, y: x <= y, "==": lambda x, y: x == y, "!=": lambda x, y: x != y, ">": lambda x, y: x > y, ">=": lambda x, y: x >= y}

    def lit_val(a, p, n, vld):
        nonlocal CNT, bad_shape
        if a is fvalid:
            r_ = bool(vld)
        elif isinstance(a, Op) and a.op in cmpops and len(a.args) == 2 and (isinstance(a.args[1], Const) or isinstance(a.args[0], Const)):
            x, y = a.args
            flip = isinstance(x, Const)
            ct, cv = (y, x.v) if flip else (x, y.v)
            if CNT is None:
                CNT = ct
            if key(ct) != key(CNT):
                bad_shape = "guards compare two different terms (%s, %s)" % (key(ct), key(CNT))
                return None
            r_ = cmpops[a.op](cv, n) if flip else cmpops[a.op](n, cv)
        else:
            # x == 0 normal form of a comparison result, or the counter itself as a truth value
            bad_shape = "guard literal %s is neither a comparison of the activate count with a constant nor `valid`" % key(a)
            return None
        return r_ if p else (not r_)
    for n in range(0, 7):
        for vld in (0, 1):
            win = None
            for l in rds:
                vals = [lit_val(a, p, n, vld) for a, p in f.guard_lits(l, False)]
                if any(x is None for x in vals):
                    win = "?"
                    break
                if all(vals):
                    win = l
            if win == "?":
                break
            if win is None:
                continue
            if is1(win.value):
                newready = 1
            elif is0(win.value):
                newready = 0
            elif key(win.value) == "~" + key(fvalid):
                newready = 1 - vld
            elif key(win.value) == key(fvalid):
                newready = vld
            else:
                bad_shape = "ready is assigned %s" % key(win.value)
                break
            if newready and n + vld > 3:
                ob.refute("faw-last-slot" if n + vld == 4 else "faw-threshold", "tFAW gate: with %d activates in the window and valid=%d, `%s` leaves ready at 1 - a fifth "
                          "activate can be accepted inside the window" % (n, vld, win), win.loc)
        if bad_shape:
            break
    ob.instance("tFAW ready drivers evaluated for 0..6 activates in the window", [str(l) for l in rds])
    if bad_shape:
        ob.unknown("tFAW ready drivers not evaluable: %s" % bad_shape)
    def _cnt_support(c_):
        sup_ = set(support(deref(f, c_)))
        for d_ in f.drivers(c_):      # a running count kept in a register: what its updates depend on
            for g_, _ in d_.guards:
                sup_ |= set(support(g_))
            if isinstance(d_.value, V):
                sup_ |= set(support(d_.value))
        return sup_
    if CNT is not None and not any("window" in s_ or key(window) in s_ for s_ in _cnt_support(CNT)):
        ob.refute("faw-count-source", "the term compared in the tFAW gate (%s) does not depend on the activate window %s" % (key(CNT), key(window)), rds[0].loc)
    # alternative form: a running count kept in a register, +1 when an activate enters the window and none leaves, -1 when one leaves and none enters
    # (leaving = the bit tfaw-1 of the window, which the shift pushes out of the counted range)
    if CNT is not None and isinstance(CNT, (Obj, Sym)) and f.drivers(CNT) and all(d_.domain.startswith("sync") for d_ in f.drivers(CNT)):
        ds_ = f.drivers(CNT)
        inc_ = [d_ for d_ in ds_ if lin_diff(d_.value, d_.target) is not None and lin_diff(d_.value, d_.target).is_const() and lin_diff(d_.value, d_.target).constval() == 1]
        dec_ = [d_ for d_ in ds_ if lin_diff(d_.target, d_.value) is not None and lin_diff(d_.target, d_.value).is_const() and lin_diff(d_.target, d_.value).constval() == 1]
        if len(ds_) == 2 and len(inc_) == 1 and len(dec_) == 1:
            leave_ = Op("index", (window, Op("-", (Sym("tfaw"), Const(1)))))
            leave_k = {key(leave_), key(Op("slice", (window, Op("-", (Sym("tfaw"), Const(1))), Sym("tfaw"))))}
            def cond_(l_):
                return [expand_term(f, c_ if p_ else Op("~", (c_,))) for c_, p_ in l_.guards]
            atoms_ = set()
            for t_ in cond_(inc_[0]) + cond_(dec_[0]):
                bool_atoms(t_, atoms_)
            lv = [k_ for k_ in atoms_ if k_ in leave_k or (k_.startswith(key(window) + "[") and "tfaw" in k_)]
            if len(lv) == 1 and atoms_ <= {key(fvalid), lv[0]}:
                LV = Sym(lv[0])
                # compare by truth table on (valid, leave); the atom of the leaving bit is matched by key
                def tt(conds, want):
                    for va in (False, True):
                        for le in (False, True):
                            env_ = {key(fvalid): va, lv[0]: le}
                            if all(bool_val(c_, env_) for c_ in conds) != want(va, le):
                                return False
                    return True
                ok_inc = tt(cond_(inc_[0]), lambda va, le: va and not le)
                ok_dec = tt(cond_(dec_[0]), lambda va, le: le and not va)
                ob.instance("tFAWController (running count)", {"count": key(CNT), "leaving bit": lv[0], "+1 iff valid & ~leaving": ok_inc, "-1 iff leaving & ~valid": ok_dec})
                if ok_inc and ok_dec and lv[0] in leave_k:
                    return
                if not (ok_inc and ok_dec):
                    ob.refute("faw-running-count", "the running activate count %s is not +1 exactly when an activate enters the window and none leaves / -1 exactly when one leaves and "
                              "none enters (leaving bit %s): it drifts away from the number of activates in the last tfaw cycles" % (key(CNT), lv[0]), inc_[0].loc)
                    return
    cnt = [l for l in f.leaves if l.kind == "assign" and l.domain == "comb" and isinstance(l.value, Op) and l.value.op in ("reduce", "sum")]
    rng_ok = any("range(tfaw)" in str(l.value).replace("call(range, tfaw)", "range(tfaw)") or "range(tfaw)" in str(l.value) for l in cnt)
    if not ob.need(bool(cnt) and rng_ok, "tFAW count is not the sum over range(tfaw) of the window"):
        return
    ob.instance("tFAWController", {"window": str(wwidth), "count": str(cnt[0].value)})


# ---------------------------------------------------------------------------------------------------
# shared BankMachine role discovery
# ---------------------------------------------------------------------------------------------------

class BMRoles:
    def __init__(self, ctx, ob, assume=None):
        self.ok = False
        v = elab(ctx, *BM)
        if assume:
            v = v.variant_map(assume)
        self.v = v
        top = v.top
        self.cmd = top.attrs.get("cmd")
        self.refresh_gnt = top.attrs.get("refresh_gnt")
        self.refresh_req = top.attrs.get("refresh_req")
        self.req = top.attrs.get("req")
        if not ob.need(self.cmd is not None and self.refresh_gnt is not None, "BankMachine lost cmd / refresh_gnt"):
            return
        fs = v.fsms("")
        if not ob.need(len(fs) == 1, "expected one FSM in BankMachine, found %d" % len(fs)):
            return
        self.fsm = fs[0]
        cmdk = key(self.cmd)
        # belief register: 1-bit sync register cleared under a single strobe C and set under ~C & O
        self.belief = self.open = self.close = None
        for k, ds in v.defs.items():
            if len(ds) != 2 or any(l.domain != "sync" or l.inst != "" or l.kind != "assign" for l in ds):
                continue
            clr = [l for l in ds if is0(l.value)]
            st = [l for l in ds if is1(l.value)]
            if len(clr) != 1 or len(st) != 1:
                continue
            cg = v.guard_lits(clr[0], False)
            sg = v.guard_lits(st[0], False)
            if len(cg) == 1 and cg[0][1] and len(sg) == 2:
                c = key(cg[0][0])
                pos = [key(a) for a, p in sg if p]
                neg = [key(a) for a, p in sg if not p]
                if neg == [c] and len(pos) == 1:
                    if self.belief is not None:
                        ob.unknown("more than one row-opened style register found")
                        return
                    self.belief, self.open, self.close = st[0].target, pos[0], c
        if not ob.need(self.belief is not None, "row-opened belief register / open and close strobes not identified"):
            return
        # command sites: one per statement that raises cmd.valid; its role and strobes come from the statements of the same branch (guards nested in one another).
        # A state may hold several sites (e.g. column commands, plus a precharge presented straight from the idle state): the state's PRIMARY site (the column one if
        # there is one) is what `sites` / `site_leaves` / `site_strobes` describe, the others are listed in `extra_sites` and looked at by the rules that must see every
        # command the bank machine can present.
        self.sites = {}      # state -> role (ACT / PRE / COL) of the primary site
        self.site_leaves = {}
        self.site_strobes = {}
        self.all_sites = []  # (state, role, leaf raising cmd.valid, strobes)
        for s in self.fsm.states:
            ls = v.fsm_leaves(self.fsm, s)
            for L in v.asserted(ls, cmdk + ".valid"):
                gL = v.guard_keys(L, False)

                def mine(x_, gL=gL):
                    gx = v.guard_keys(x_, False)
                    return gx <= gL or gL <= gx
                strobes = {nm for nm in ("ras", "cas", "we") if any(mine(x_) for x_ in v.asserted(ls, "%s.%s" % (cmdk, nm)))}
                if any(mine(x_) for x_ in v.asserted(ls, self.open)):
                    role = "ACT"
                elif any(mine(x_) for x_ in v.asserted(ls, self.close)) and "cas" not in strobes:
                    role = "PRE"
                else:
                    role = "COL"
                self.all_sites.append((s, role, L, strobes))
        self.extra_sites = []
        for s in self.fsm.states:
            here = [x_ for x_ in self.all_sites if x_[0] == s]
            if not here:
                continue
            roles_here = []
            for x_ in here:
                if x_[1] not in roles_here:
                    roles_here.append(x_[1])
            prim = "COL" if "COL" in roles_here else roles_here[0]
            self.sites[s] = prim
            self.site_leaves[s] = [x_[2] for x_ in here if x_[1] == prim]
            st_ = set()
            for x_ in here:
                if x_[1] == prim:
                    st_ |= x_[3]
            self.site_strobes[s] = st_
            self.extra_sites += [x_ for x_ in here if x_[1] != prim]
        have = {x_[1] for x_ in self.all_sites}
        ncol = len([s for s, r_ in self.sites.items() if r_ == "COL"])
        if not ob.need(have >= {"ACT", "COL", "PRE"} and ncol == 1, "command sites of the bank FSM not identified: %s (+%s)" %
                       (self.sites, [(x_[0], x_[1]) for x_ in self.extra_sites])):
            return
        self.closing_states = [s for s in self.fsm.states if v.asserted(v.fsm_leaves(self.fsm, s), self.close)]
        # timing gates: role by use (which sites wait for them), parameter checked separately (C03.4)
        self.gates = {}
        self.gate_arg = {}
        allg = v.instances_of("tXXDController")
        used_close = []
        used_act = []
        for g in allg:
            rk = key(g.attrs["ready"])
            for st in self.closing_states:
                if any(rk in v.guard_keys(l) for l in v.fsm_leaves(self.fsm, st)) and g not in used_close:
                    used_close.append(g)
            for st, r in self.sites.items():
                if r == "ACT" and any(rk in v.guard_keys(l) for l in self.site_leaves[st]) and g not in used_act:
                    used_act.append(g)
        for g in allg:
            arg = g.args[0] if g.args else g.kwargs.get("txxd")
            self.gate_arg[g] = arg
            if arg is not None and sup_has(arg, "tWR"):
                self.gates["tWTP"] = g
        rest = [g for g in used_close if g is not self.gates.get("tWTP")]
        if len(rest) == 1:
            self.gates["tRAS"] = rest[0]
        if len(used_act) == 1:
            self.gates["tRC"] = used_act[0]
        for g in allg:      # fall back to the constructor argument
            arg = self.gate_arg[g]
            for n in ("tRAS", "tRC"):
                if n not in self.gates and isinstance(arg, Sym) and arg.path.endswith("." + n) and g not in self.gates.values():
                    self.gates[n] = g
        if not ob.need(set(self.gates) == {"tWTP", "tRAS", "tRC"}, "timing gates of BankMachine not identified (found %s)" % sorted(self.gates)):
            return
        self.edges, self.delayed = fsm_graph(v, self.fsm)
        # refresh: grant sites (value form or guard form) and the hold states (no command, left only when the refresher releases its request)
        self.grant_sites = {s: v.asserted(v.fsm_leaves(self.fsm, s), self.refresh_gnt) for s in self.fsm.states}
        self.grant_sites = {s: ls_ for s, ls_ in self.grant_sites.items() if ls_}
        rrk = "~" + key(self.refresh_req) if self.refresh_req is not None else None
        self.hold_states = {s for s in self.fsm.states if not v.asserted(v.fsm_leaves(self.fsm, s), cmdk + ".valid")
                            and [1 for (src, d, l) in self.edges if src == s] and all(rrk in v.guard_keys(l, False) for (src, d, l) in self.edges if src == s)}
        self.refresh_states = set(self.grant_sites) & self.hold_states
        self.ok = True

    def mine(self, site_leaf, x):
        """does statement x belong to the branch of the command site raised by site_leaf (guards nested in one another)?"""
        g1, g2 = self.v.guard_keys(site_leaf, False), self.v.guard_keys(x, False)
        return g1 <= g2 or g2 <= g1

    def gate_ready(self, role):
        return key(self.gates[role].attrs["ready"])


def _phi_gate(ob, state, g, missing):
    """a guard that is one of two timing controllers' ready, chosen when the generator runs (Python-level if): not the shape this rule reads"""
    ph = [a_ for a_ in g if "phi(" in a_ and ".ready" in a_]
    if ph:
        ob.unknown("state %s: the gate for %s is not found as such, but the site is guarded by %s - a timing controller selected at build time; "
                   "which one applies is not decided" % (state, "/".join(missing), ph[0][:200]))
        return True
    return False


def bm_gates(ctx):
    ob = ctx.ob("C03.2", "BankMachine: every site where a precharge takes effect (explicit PRE, the edge that starts the tRP wait after an "
                         "auto-precharge, the refresh grant that lets precharge-all follow) is guarded by BOTH gate(tWTP).ready and "
                         "gate(tRAS).ready; ACT is guarded by gate(tRC).ready; gate triggers are fire(cmd)&row_open / fire(cmd)&is_write", 3)
    R = BMRoles(ctx, ob)
    if not R.ok:
        return
    v = R.v
    need = {R.gate_ready("tWTP"): "tWTP", R.gate_ready("tRAS"): "tRAS"}
    nsites = 0
    for s in R.closing_states:
        ls = v.fsm_leaves(R.fsm, s)
        sites = []
        if R.sites.get(s) == "PRE":
            sites = [("PRE presented", l) for l in R.site_leaves[s]]
        else:
            nxt = [l for l in ls if l.kind == "next" and (l.value.v if isinstance(l.value, Const) else None) in R.delayed]
            if nxt:
                sites = [("auto-precharge release edge -> %s" % l.value.v, l) for l in nxt]
            else:
                gnt = v.asserted(ls, R.refresh_gnt)
                if gnt:
                    sites = [("refresh grant", l) for l in gnt]
        if not sites:
            ob.unknown("row-closing state %s has no recognisable precharge-effective site" % s)
            continue
        for what, l in sites:
            nsites += 1
            g = v.guard_keys(l)
            missing = [nm for k, nm in need.items() if k not in g]
            ob.instance("state %s: %s" % (s, what), {"guards": sorted(g), "missing": missing})
            if missing and _phi_gate(ob, s, g, missing):
                pass
            elif missing:
                ob.refute("%s:%s" % (s, "+".join(missing)), "in bank FSM state %s the %s is not gated by %s.ready (guards: %s) - "
                          "a precharge can follow an ACT/WRITE too early" % (s, what, "/".join(missing), sorted(g)), l.loc,
                          {"state": s, "site": what, "guards": sorted(g)})
    # a refresh grant given from any other state (e.g. straight from the idle / column state) lets the precharge-all follow just the same
    for s, gl in sorted(R.grant_sites.items()):
        if s in R.closing_states:
            continue
        for l in gl:
            nsites += 1
            g = v.guard_keys(l)
            missing = [nm for k, nm in need.items() if k not in g]
            ob.instance("state %s: refresh grant" % s, {"guards": sorted(g), "missing": missing})
            if missing and _phi_gate(ob, s, g, missing):
                pass
            elif missing:
                ob.refute("%s:%s" % (s, "+".join(missing)), "in bank FSM state %s the refresh grant is not gated by %s.ready (guards: %s) - "
                          "the precharge-all can follow an ACT/WRITE too early" % (s, "/".join(missing), sorted(g)), l.loc,
                          {"state": s, "site": "refresh grant", "guards": sorted(g)})
    # additional command sites of a state (e.g. a precharge presented straight from the idle state)
    for s, role, l, _st in R.extra_sites:
        g = v.guard_keys(l)
        if role == "PRE":
            nsites += 1
            missing = [nm for k, nm in need.items() if k not in g]
            ob.instance("state %s: additional PRE site" % s, {"guards": sorted(g), "missing": missing})
            if missing and _phi_gate(ob, s, g, missing):
                pass
            elif missing:
                ob.refute("%s:%s" % (s, "+".join(missing)), "in bank FSM state %s a precharge is presented without %s.ready (guards: %s) - it can follow an ACT/WRITE too "
                          "early" % (s, "/".join(missing), sorted(g)), l.loc)
        elif role == "ACT":
            ob.instance("state %s: additional ACT site" % s, {"guards": sorted(g)})
            if R.gate_ready("tRC") not in g and _phi_gate(ob, s, g, ["tRC"]):
                pass
            elif R.gate_ready("tRC") not in g:
                ob.refute("%s:tRC" % s, "ACT is presented in state %s without gate(tRC).ready (guards %s)" % (s, sorted(g)), l.loc)
    # ACT gated by tRC
    for s, role in R.sites.items():
        if role == "ACT":
            for l in R.site_leaves[s]:
                g = v.guard_keys(l)
                ob.instance("state %s: ACT presented" % s, {"guards": sorted(g)})
                if R.gate_ready("tRC") not in g:
                    ob.refute("%s:tRC" % s, "ACT is presented without gate(tRC).ready (guards %s)" % sorted(g), l.loc)
    # triggers
    cmdk = key(R.cmd)
    fire = {cmdk + ".valid", cmdk + ".ready"}
    for role, extra in (("tRC", R.open), ("tRAS", R.open), ("tWTP", cmdk + ".is_write")):
        gv = R.gates[role].attrs.get("valid")
        ds = v.drivers(gv)
        if not ob.need(len(ds) == 1 and not ds[0].guards, "gate(%s).valid is not a single unconditional assignment" % role):
            continue
        c = v.value_conj_keys(ds[0].value, False)
        ob.instance("gate(%s).valid trigger" % role, {"conjuncts": sorted(c)})
        if c != fire | {extra}:
            ob.refute("trigger:%s" % role, "gate(%s) is triggered by %s, expected fire(cmd) & %s" % (role, sorted(c), extra), ds[0].loc)


def bm_latencies(ctx):
    ob = ctx.ob("C03.3", "BankMachine: symbolic minimum path length from a PRE-accept / auto-precharge release edge to the first state "
                         "that can present ACT is >= tRP; from the ACT-accept edge to the first state that can present a column "
                         "command is >= tRCD (delayed_enter(name, target, d): target reached d cycles after entering name)", 3)
    R = BMRoles(ctx, ob)
    if not R.ok:
        return
    v = R.v
    succ = {}
    for s, d, l in R.edges:
        succ.setdefault(s, []).append(d)
    for nm, (target, delay, loc) in R.delayed.items():
        succ.setdefault(nm, []).append(target)
    act_states = {s for s, r in R.sites.items() if r == "ACT"}
    col_states = {s for s, r in R.sites.items() if r == "COL"}

    def cost(path):
        c = Const(0)
        for n in path[:-1]:
            if n in R.delayed:
                c = Op("+", (c, R.delayed[n][1]))
            else:
                c = Op("+", (c, Const(1)))
        return c

    def check(what, src_state, first, targets, bound, boundname, loc):
        paths = simple_paths(succ, first, targets) if first not in targets else [[first]]
        if not paths:
            ob.unknown("%s: no path from %s to a %s site" % (what, first, boundname))
            return
        for p in paths:
            # the edge itself takes one cycle (state register), then the path
            c = Op("+", (Const(1), cost(p)))
            ge = lin_ge(c, bound)
            ob.instance("%s via %s" % (what, "->".join(p)), {"cycles": key(c), "bound": str(bound), "ok": ge})
            if ge is False:
                ob.refute("%s:%s" % (boundname, "->".join([src_state] + p)), "%s: only %s cycles to the next command site along %s, "
                          "less than %s" % (what, key(c), "->".join([src_state] + p), bound), loc)
            elif ge is None:
                ob.unknown("%s: cannot compare %s with %s along %s" % (what, key(c), bound, "->".join(p)))

    tset = ctx_settings()
    for s in R.closing_states:
        for src, dst, l in R.edges:
            if src != s:
                continue
            if R.sites.get(s) == "PRE" or dst in R.delayed:
                if R.sites.get(s) != "PRE" and not (dst in R.delayed):
                    continue
                check("precharge edge %s->%s" % (s, dst), s, dst, act_states, tset("tRP"), "tRP", l.loc)
    for s in act_states:
        for src, dst, l in R.edges:
            if src == s:
                check("ACT accept edge %s->%s" % (s, dst), s, dst, col_states, tset("tRCD"), "tRCD", l.loc)
    # the accept edges must be conditioned on cmd.ready (the command was really issued)
    cmdk = key(R.cmd)
    for s, role in R.sites.items():
        if role in ("PRE", "ACT"):
            for src, dst, l in R.edges:
                if src == s and cmdk + ".ready" not in v.guard_keys(l) and dst not in R.delayed and dst not in (R.delayed.values() if isinstance(R.delayed, dict) else ()):
                    # an edge that abandons the command (no wait chain behind it): whether the command can have been issued on the way is the typestate rule's business
                    ob.unknown("state %s also leaves for %s without cmd.ready, not into a timing wait: whether the command presented there is withdrawn cleanly is not decided "
                               "by this rule" % (s, dst))
                elif src == s and cmdk + ".ready" not in v.guard_keys(l):
                    ob.refute("edge-without-ready:%s" % s, "state %s leaves for %s without waiting for cmd.ready: the wait starts before "
                              "the command is issued" % (s, dst), l.loc)


def ctx_settings():
    return lambda n: Sym("settings.timing." + n)


def gate_params(ctx):
    ob = ctx.ob("C03.4", "gate parameters: tWTP gate = ceil(cwl/nphases) + tWR + tCCD; tWTR gate = tWTR + ceil(cwl/nphases) + tCCD; "
                         "tRC/tRAS/tRRD/tFAW/tCCD gates are built from the same-named settings.timing field", 7)
    v = elab(ctx, *BM)
    m = elab(ctx, *MUX, kwargs={"bank_machines": ListV([Sym("bm0"), Sym("bm1")])},
             overrides={"settings.phy.nphases": Const(4), "dfi.phases": ListV([Sym("dfi.p%d" % i) for i in range(4)]),
                        "settings.phy.rdphase": Const(2), "settings.phy.wrphase": Const(3)})
    T = lambda n: Sym("settings.timing." + n)

    def is_wl(atom):
        return atom.startswith("ceil(") and "cwl" in atom and "nphases" in atom or atom.startswith("ceil(") and "cwl" in atom

    def check_sum(what, arg, names, loc):
        l = lin(arg)
        if l is None:
            ob.unknown("%s: parameter %s is not arithmetic" % (what, arg))
            return
        rest = l
        for n in names:
            rest = rest - Lin.atom(key(T(n)))
        ats = list(rest.t.items())
        good = len(ats) == 1 and len(ats[0][0]) == 1 and ats[0][1] == 1 and is_wl(ats[0][0][0])
        ob.instance(what, {"parameter": key(arg), "expected": "ceil(cwl/nphases) + " + " + ".join(names)})
        if not good:
            ob.refute("param:" + what, "%s is built from %s; expected ceil(cwl/nphases) + %s (the write burst and write latency must be "
                      "waited out before the datasheet interval starts)" % (what, key(arg), " + ".join(names)), loc)

    seen = {}
    R = BMRoles(ctx, ob)
    if R.ok:
        for role in ("tRAS", "tRC"):
            arg = R.gate_arg[R.gates[role]]
            ob.instance("BankMachine gate in the %s role (by the sites that wait for it)" % role, {"parameter": key(arg)})
            if not (isinstance(arg, Sym) and arg.path == "settings.timing." + role):
                ob.refute("role-param:" + role, "the gate that %s is built from %s, expected settings.timing.%s" %
                          ("guards precharges" if role == "tRAS" else "guards ACT", key(arg), role), R.gates[role].loc)
                seen[role] = 1
    for view, where in ((v, "BankMachine"), (m, "Multiplexer")):
        for g in view.instances_of("tXXDController") + view.instances_of("tFAWController"):
            arg = g.args[0] if g.args else None
            if arg is None:
                ob.unknown("gate %s without positional parameter" % g)
                continue
            nm = str(g)
            if sup_has(arg, "tWR"):
                check_sum("tWTP gate (%s.%s)" % (where, nm), arg, ["tWR", "tCCD"], g.loc)
                seen["tWTP"] = 1
            elif sup_has(arg, "tWTR"):
                a = arg
                if isinstance(a, Op) and a.op in ("ifexp", "phi"):
                    c, t, f = a.args
                    if sup_has(c, "tCCD") and is0(f):
                        ctx.assume("tWTR gate parameter is written `x + tCCD if tCCD is not None else 0`: analysed for tCCD not None "
                                   "(all library modules define tCCD)")
                        a = t
                check_sum("tWTR gate (%s.%s)" % (where, nm), a, ["tWTR", "tCCD"], g.loc)
                seen["tWTR"] = 1
            else:
                if isinstance(arg, Sym) and arg.path.startswith("settings.timing."):
                    f = arg.path.split(".")[-1]
                    seen[f] = 1
                    ob.instance("%s gate (%s.%s)" % (f, where, nm), {"parameter": arg.path})
                else:
                    ob.refute("param:%s.%s" % (where, nm), "timing gate %s.%s is built from %s, not from a settings.timing field" % (where, nm, key(arg)), g.loc)
    missing = {"tWTP", "tWTR", "tRC", "tRAS", "tRRD", "tFAW", "tCCD"} - set(seen)
    if missing:
        ob.unknown("gates not found for %s" % sorted(missing))


# ---------------------------------------------------------------------------------------------------
# C03.5 multiplexer
# ---------------------------------------------------------------------------------------------------

def mux_view(ctx, nphases, nbm=2):
    rd, wr = {1: (0, 0), 2: (0, 1), 4: (2, 3)}[nphases]
    return elab(ctx, *MUX, kwargs={"bank_machines": ListV([Sym("bm%d" % i) for i in range(nbm)])},
                overrides={"settings.phy.nphases": Const(nphases), "dfi.phases": ListV([Sym("dfi.p%d" % i) for i in range(nphases)]),
                           "settings.phy.rdphase": Const(rd), "settings.phy.wrphase": Const(wr)},
                hasattrs={"refresher.cmd.valid": True, "nop.valid": False})


class MuxRoles:
    def __init__(self, ctx, ob, nphases):
        self.ok = False
        v = mux_view(ctx, nphases)
        self.v = v
        fs = v.fsms("")
        if not ob.need(len(fs) == 1, "expected one FSM in Multiplexer"):
            return
        self.fsm = fs[0]
        ch = v.instances_of("_CommandChooser")
        if not ob.need(len(ch) == 2, "expected two _CommandChooser instances"):
            return
        self.read_state = self.write_state = None
        self.req = None
        for s in self.fsm.states:
            for l in v.fsm_leaves(self.fsm, s):
                if l.kind == "assign" and is1(l.value):
                    for c in ch:
                        if l.target is c.attrs.get("want_reads"):
                            self.read_state, self.req = s, c
                        if l.target is c.attrs.get("want_writes"):
                            self.write_state = s
        if not ob.need(self.read_state and self.write_state and self.req is not None, "read-mode / write-mode states not identified"):
            return
        self.cmdch = [c for c in ch if c is not self.req][0] if nphases > 1 else self.req
        self.gates = {}
        for g in v.instances_of("tXXDController") + v.instances_of("tFAWController"):
            arg = g.args[0] if g.args else None
            for n in ("tWTR", "tRRD", "tFAW", "tCCD"):
                if arg is not None and ((isinstance(arg, Sym) and arg.path.endswith("." + n)) or (n == "tWTR" and sup_has(arg, "tWTR"))):
                    self.gates.setdefault(n, g)
        if not ob.need(set(self.gates) == {"tWTR", "tRRD", "tFAW", "tCCD"}, "multiplexer gates not identified: %s" % sorted(self.gates)):
            return
        self.refresh_states = [s for s in self.fsm.states if any(l.kind == "assign" and key(l.target) == "refresher.cmd.ready" and is1(l.value)
                                                                  for l in v.fsm_leaves(self.fsm, s))]
        self.edges, self.delayed = fsm_graph(v, self.fsm)
        self.ok = True

    def ready(self, g):
        return key(self.gates[g].attrs["ready"])


def act_term_keys(ch):
    c = key(ch.attrs["cmd"])
    return {c + ".ras", "~" + c + ".cas", "~" + c + ".we"}


def mux_gates(ctx):
    ob = ctx.ob("C03.5", "Multiplexer: a request that is an activate is accepted only under gate(tRRD).ready & gate(tFAW).ready; a column "
                         "command only under gate(tCCD).ready; triggers are accept&activate / accept&(read|write) / accept&write; every "
                         "FSM path from write mode to read mode passes a state whose only exit waits for gate(tWTR).ready, or refresh", 6)
    for nph in ((1, 4) if ctx.tier == "quick" else (1, 2, 4)):
        R = MuxRoles(ctx, ob, nph)
        if not R.ok:
            return
        v = R.v
        tag = "nphases=%d" % nph
        choosers = {key(R.req.attrs["cmd"]) + ".ready": R.req, key(R.cmdch.attrs["cmd"]) + ".ready": R.cmdch}
        for rk, ch in choosers.items():
            ds = v.drivers(rk)
            if not ob.need(bool(ds), "%s: no driver of %s" % (tag, rk)):
                continue
            cpre = key(ch.attrs["cmd"])
            is_act = [Sym(cpre + ".ras"), Op("~", (Sym(cpre + ".cas"),)), Op("~", (Sym(cpre + ".we"),))]
            for l in ds:
                if is0(l.value):
                    continue
                # truth table over the atoms of the (definition-expanded) acceptance condition: accept => gate.ready
                cond = [expand_term(v, t_) for t_ in leaf_cond(l)]
                tccd = expand_term(v, Sym(R.ready("tCCD")))
                act_gates = [expand_term(v, Sym(R.ready("tRRD"))), expand_term(v, Sym(R.ready("tFAW")))]
                needs_cas = ch is R.req
                cas_ok, cex1 = implies(cond, [tccd]) if needs_cas else (True, None)
                if ch is R.req and nph > 1:
                    act_ok, cex2 = True, None     # request chooser never sees activates when nphases > 1 (C02.5)
                else:
                    act_ok, cex2 = implies(cond + is_act, act_gates)
                ob.instance("%s state %s: %s" % (tag, l.state, rk), {"accept condition": [key(c_)[:160] for c_ in cond], "cas_gated": cas_ok, "act_gated": act_ok})
                if cas_ok is None or act_ok is None:
                    ob.unknown("%s state %s: acceptance condition of %s too large to enumerate (%s)" % (tag, l.state, rk, cex1 or cex2))
                    continue
                if cas_ok is False:
                    ob.refute("%s:cas:%s" % (tag, l.state), "in state %s the request chooser accepts column commands without "
                              "gate(tCCD).ready: %s is satisfied by %s" % (l.state, key(l.value), sorted(k_ for k_, x_ in cex1.items() if x_)), l.loc)
                if act_ok is False:
                    ob.refute("%s:ras:%s:%s" % (tag, l.state, "req" if ch is R.req else "cmd"), "in state %s chooser %s accepts an activate "
                              "without gate(tRRD).ready & gate(tFAW).ready: %s is satisfied by %s" %
                              (l.state, ch, key(l.value), sorted(k_ for k_, x_ in cex2.items() if x_)), l.loc)
        # triggers
        cc, rc = key(R.cmdch.attrs["cmd"]), key(R.req.attrs["cmd"])
        exp = {
            "tRRD": {cc + ".valid", cc + ".ready", cc + ".ras", "~" + cc + ".cas", "~" + cc + ".we"},
            "tFAW": {cc + ".valid", cc + ".ready", cc + ".ras", "~" + cc + ".cas", "~" + cc + ".we"},
        }
        for g, e in exp.items():
            ds = v.drivers(R.gates[g].attrs["valid"])
            if ob.need(len(ds) == 1 and not ds[0].guards, "%s: gate(%s).valid not a single assignment" % (tag, g)):
                c = v.value_conj_keys(ds[0].value, False)
                ob.instance("%s gate(%s) trigger" % (tag, g), sorted(c))
                if c != e:
                    ob.refute("%s:trigger:%s" % (tag, g), "gate(%s) is triggered by %s, expected accept & activate of the command chooser"
                              % (g, sorted(c)), ds[0].loc)
        for g, kinds in (("tCCD", {rc + ".is_read", rc + ".is_write"}), ("tWTR", {rc + ".is_write"})):
            ds = v.drivers(R.gates[g].attrs["valid"])
            if ob.need(len(ds) == 1 and not ds[0].guards, "%s: gate(%s).valid not a single assignment" % (tag, g)):
                lits = conj(ds[0].value)
                plain = {lkey(x) for x in lits if not (isinstance(x[0], Op) and x[0].op == "|")}
                dis = [x for x in lits if isinstance(x[0], Op) and x[0].op == "|"]
                got = set()
                for x in dis:
                    got |= litset(disj(x[0]))
                if not dis:
                    got = plain - {rc + ".valid", rc + ".ready"}
                    plain = plain & {rc + ".valid", rc + ".ready"}
                ob.instance("%s gate(%s) trigger" % (tag, g), {"fire": sorted(plain), "kinds": sorted(got)})
                if plain != {rc + ".valid", rc + ".ready"} or got != kinds:
                    ob.refute("%s:trigger:%s" % (tag, g), "gate(%s) is triggered by %s / %s, expected accept of the request chooser & %s"
                              % (g, sorted(plain), sorted(got), sorted(kinds)), ds[0].loc)
        # must-pass-through WRITE -> READ
        succ = {}
        for s, d, l in R.edges:
            succ.setdefault(s, []).append(d)
        for nm, (t, dl, loc) in R.delayed.items():
            succ.setdefault(nm, []).append(t)
        wait_states = set(R.refresh_states)
        for s in R.fsm.states:
            outs = [(d, l) for (src, d, l) in R.edges if src == s]
            if outs and all(R.ready("tWTR") in v.guard_keys(l) for d, l in outs) and s not in (R.read_state, R.write_state):
                wait_states.add(s)
        bad = simple_paths(succ, R.write_state, {R.read_state}, avoid=wait_states)
        ob.instance("%s write->read paths avoiding %s" % (tag, sorted(wait_states)), {"paths": bad})
        for p in bad:
            ob.refute("%s:wtr-bypass:%s" % (tag, "->".join(p)), "FSM path %s reaches read mode from write mode without waiting for "
                      "gate(tWTR).ready" % "->".join(p), R.fsm.acts[R.write_state][0].loc)


# ---------------------------------------------------------------------------------------------------
# C03.6 refresher timelines
# ---------------------------------------------------------------------------------------------------

def classify_event(stmts, cmdk):
    vals = {}
    for st in stmts:
        if isinstance(st, Assign) and isinstance(st.value, Const):
            vals[key(st.target)] = st.value.v
    ras, cas, we = (vals.get(cmdk + "." + n) for n in ("ras", "cas", "we"))
    done = any(k.endswith("done") and v == 1 for k, v in vals.items())
    a = vals.get(cmdk + ".a")
    if done:
        return "DONE", vals
    if ras == 1 and we == 1 and cas == 0:
        return ("PREA" if a is not None and (a >> 10) & 1 else "PRE-single"), vals
    if ras == 1 and cas == 1 and we == 0:
        return "REF", vals
    if ras == 0 and cas == 0 and we == 1:
        return "ZQCS", vals
    return "?", vals


def _covers(ob, rkey, what, inst, wants):
    """each timing argument handed to a refresh block must be at least the controller's datasheet-derived cycle count: equal term, provably >=, or >= on a sweep of
    values (a positive witness value is reported when it is smaller)"""
    from ..bits import ieval, Unresolved
    for name, pos, sym in wants:
        arg = inst.kwargs.get(name, inst.args[pos] if len(inst.args) > pos else None)
        if arg is None:
            ob.unknown("%s: argument %s not found" % (what, name))
            continue
        if key(arg) == sym or lin_ge(arg, Sym(sym)) is True:
            continue
        sup_ = set(support(arg))
        if sym not in sup_ and any(x_.startswith("settings.timing.") for x_ in sup_):
            ob.refute(rkey, "Refresher hands %s = %s to the %s: that is another datasheet entry than %s" % (name, key(arg), what, sym), inst.loc)
            continue
        try:
            low = [(v_, ieval(arg, {sym: v_})) for v_ in (1, 2, 3, 4, 5, 8, 16, 44, 64, 128, 260) if ieval(arg, {sym: v_}) < v_]
        except (Unresolved, Exception) as e:
            ob.unknown("%s: cannot compare the %s argument %s with %s (%s)" % (what, name, key(arg), sym, e))
            continue
        if low:
            ob.refute(rkey, "Refresher hands %s = %s to the %s: for %s = %d cycles that is only %d, so the following command (the next precharge-all of a postponed sequence, the "
                      "precharge-all before a ZQCS, or the first command after the release) comes earlier than the datasheet allows" %
                      (name, key(arg), what, sym, low[-1][0], low[-1][1]), inst.loc)


def refresher_timelines(ctx):
    ob = ctx.ob("C03.6", "refresher: precharge-all -> REF spaced by tRP, REF -> done by tRFC; precharge-all -> ZQCS by tRP, ZQCS -> done by "
                         "tZQCS; the executers receive settings.timing.tRP/tRFC/tZQCS; cmd.valid (which holds the bank machines in "
                         "their refresh state) is dropped only at done", 5)
    for cls, second, p2 in (("RefreshExecuter", "REF", "trfc"), ("ZQCSExecuter", "ZQCS", "tzqcs")):
        v = elab(ctx, REFR, cls, kwargs={"cmd": Sym("cmd"), "trp": Sym("trp"), p2: Sym(p2)})
        tls = [l for l in v.leaves if l.kind == "timeline"]
        if not ob.need(len(tls) == 1, "%s: expected one timeline, found %d" % (cls, len(tls))):
            continue
        tl = tls[0].stmt
        if not ob.need(key(tl.trigger) == key(v.top.attrs.get("start")), "%s: timeline not triggered by start" % cls):
            continue
        evs = {}
        for t, stmts in tl.events:
            kind, vals = classify_event(stmts, "cmd")
            evs.setdefault(kind, []).append(t)
        if not ob.need(all(len(evs.get(k, [])) == 1 for k in ("PREA", second, "DONE")), "%s: timeline events not recognised: %s" %
                       (cls, {k: [str(x) for x in v_] for k, v_ in evs.items()})):
            if "PRE-single" in evs:
                ob.refute("%s:prea" % cls, "%s precharges without A10 (not precharge-all)" % cls, tls[0].loc)
            continue
        t0, t1, t2 = evs["PREA"][0], evs[second][0], evs["DONE"][0]
        d1, d2 = lin_diff(t1, t0), lin_diff(t2, t1)
        ob.instance("%s timeline" % cls, {"PREA": str(t0), second: str(t1), "DONE": str(t2)})
        if d1 is None or d1 != lin(Sym("trp")):
            ok = lin_ge(Op("-", (t1, t0)), Sym("trp"))
            if ok is not True:
                ob.refute("%s:trp" % cls, "%s issues %s %s cycles after precharge-all, expected trp" % (cls, second, d1.key() if d1 else "?"), tls[0].loc)
        if d2 is None or d2 != lin(Sym(p2)):
            ok = lin_ge(Op("-", (t2, t1)), Sym(p2))
            if ok is not True:
                ob.refute("%s:%s" % (cls, p2), "%s signals done %s cycles after %s, expected %s" % (cls, d2.key() if d2 else "?", second, p2), tls[0].loc)
    # parameter passing
    s = elab(ctx, REFR, "RefreshSequencer", kwargs={"cmd": Sym("cmd"), "trp": Sym("trp"), "trfc": Sym("trfc"), "postponing": Sym("postponing")})
    ex = s.instances_of("RefreshExecuter")
    if ob.need(len(ex) == 1, "RefreshSequencer does not instantiate one RefreshExecuter"):
        a = list(ex[0].args) + [ex[0].kwargs.get(k) for k in ("cmd", "trp", "trfc")][len(ex[0].args):]
        ob.instance("RefreshSequencer -> RefreshExecuter", [str(x) for x in a])
        if [str(x) for x in a] != ["cmd", "trp", "trfc"]:
            ob.refute("sequencer-args", "RefreshSequencer passes %s to the executer, expected (cmd, trp, trfc)" % [str(x) for x in a], ex[0].loc)
    for zq in (True, False):
        r = elab(ctx, REFR, "Refresher").variant_map({"(settings.timing.tZQCS is None)": not zq, "(settings.timing.tZQCS isnot None)": zq})
        seq = [o for o in r.instances_of("RefreshSequencer") if o.path.count(".") == 0]
        if ob.need(len(seq) == 1, "Refresher does not instantiate one RefreshSequencer"):
            a = [str(x) for x in seq[0].args]
            ob.instance("Refresher -> RefreshSequencer (zqcs=%s)" % zq, a)
            _covers(ob, "refresher-args", "sequencer", seq[0], (("trp", 1, "settings.timing.tRP"), ("trfc", 2, "settings.timing.tRFC")))
        if zq:
            ze = [o for o in r.instances_of("ZQCSExecuter") if o.path.count(".") == 0]
            if ob.need(len(ze) == 1, "Refresher (ZQCS configuration) does not instantiate one ZQCSExecuter"):
                a = [str(x) for x in ze[0].args]
                ob.instance("Refresher -> ZQCSExecuter", a)
                _covers(ob, "zqcs-args", "ZQCS executer", ze[0], (("trp", 1, "settings.timing.tRP"), ("tzqcs", 2, "settings.timing.tZQCS")))
        # cmd.valid dropped / IDLE entered only at done
        fs = r.fsms("")
        if not ob.need(len(fs) == 1, "Refresher FSM not found"):
            continue
        f = fs[0]
        cmdk = key(r.top.attrs.get("cmd"))
        dones = {key(o.attrs["done"]) for o in r.instances_of("RefreshSequencer") + r.instances_of("ZQCSExecuter") if o.path.count(".") == 0}
        started = set()
        for st in f.states:
            ls = r.fsm_leaves(f, st)
            holds = r.asserted(ls, cmdk + ".valid")
            if not holds:
                continue
            for l in ls:
                drop = (l.kind == "assign" and key(l.target) == cmdk + ".valid" and is0(l.value)) or \
                       (l.kind == "next" and isinstance(l.value, Const) and not r.asserted(r.fsm_leaves(f, l.value.v), cmdk + ".valid"))
                if drop:
                    g = r.guard_keys(l)
                    ob.instance("zqcs=%s state %s: %s" % (zq, st, "drop cmd.valid" if l.kind == "assign" else "leave to " + str(l.value.v)), sorted(g))
                    if not (g & dones):
                        ob.refute("early-release:%s" % st, "refresher state %s releases the bank machines (%s) without waiting for the "
                                  "executer's done (guards %s): tRFC/tZQCS not waited out" % (st, l, sorted(g)), l.loc)


def run(ctx):
    gate_contract(ctx)
    bm_gates(ctx)
    bm_latencies(ctx)
    gate_params(ctx)
    mux_gates(ctx)
    refresher_timelines(ctx)
    ob7 = ctx.ob("C03.7", "the cycle counts the gates are built from cover the datasheet values on any pair of command phases: every minimum-type timing is rounded "
                          "up and carries the (1 - 1/ratio)*period phase margin (shared with C16.1 / C16.2) - a command phase that differs between read and write mode "
                          "can otherwise bring two row commands up to nphases-1 DRAM clocks closer than counted", 10)
    share(ctx, ob7, "C16", ("C16.1", "C16.2"))
    ob8 = ctx.ob("C03.8", "the activate-to-activate minimum that the datasheet gives in clocks (tRRD, enforced by an exact counter) keeps its value when the two activates sit on "
                          "different command slots: the clock-count conversion carries the (ratio-1)-clock phase margin (the activate slot is rdphase-1 in read mode and "
                          "wrphase-1 in write mode, so it moves when the multiplexer changes direction)", 2)
    share(ctx, ob8, "C16", ("C16.ckphase",))
    ctx.assume("C16 (cycle counts cover the datasheet nanoseconds incl. phase margin) composes with these gates; tCCD cycles >= burst "
               "duration in controller cycles for the rates each memory type is used with")
