"""Concrete evaluation of EXTRACTED hardware terms (never of repository code): given integer values for the primitive inputs of a block and a
structural valuation of the configuration symbols that occur in widths / slice bounds, compute the value a combinational signal takes, or the next
value of a register, by interpreting the guarded assignments of the HIR (last assignment wins, Case arms, partial slice assignments).

Rules use it to compare a small block (steerer, crossbar routing, ...) against its specification function exhaustively over the few primitive
signals involved - a truth table of the extracted netlist - so that the verdict does not depend on how the logic is written."""
from .values import Const, Sym, Op, Obj, ListV, V
from .term import key
from .bits import Unresolved


def _root(t):
    """(root signal term, [(lo, hi) slice chain]) of an assignment target"""
    chain = []
    while isinstance(t, Op) and t.op in ("slice", "index"):
        chain.append(t)
        t = t.args[0]
    return t, chain


class CEval:
    def __init__(self, view, env, cfg=None, models=None, inst=None, default_undriven=None):
        self.v = view
        self.env = dict(env)
        self.cfg = dict(cfg or {})
        self.models = models or {}
        self.cache = {}
        self.busy = set()
        self.comb = {}
        self.sync = {}
        for l in view.leaves:
            if l.kind not in ("assign", "nextvalue") or l.target is None:
                continue
            r, _ = _root(l.target)
            k = key(r)
            if l.kind == "nextvalue" or l.domain.startswith("sync"):
                self.sync.setdefault(k, []).append(l)
            else:
                self.comb.setdefault(k, []).append(l)
        self.connects = [l for l in view.leaves if l.kind == "connect" and l.target is not None and l.value is not None and not l.domain.startswith("sync")]
        self.objs = {str(o): o for o in view.d.objs}
        self.state = {}        # fsm id -> current state name (for FSM-local comb leaves)
        self.missing = set()   # registers read without a value in env (evaluated as 0)
        self.default_undriven = default_undriven
        self.undriven = set()

    # ---- configuration-time integers ----------------------------------------------------------------------------------
    def cint(self, t):
        if isinstance(t, Const):
            if isinstance(t.v, bool):
                return int(t.v)
            if isinstance(t.v, int):
                return t.v
            raise Unresolved("const %r" % (t.v,))
        k = key(t)
        if k in self.cfg:
            return self.cfg[k]
        if str(t) in self.cfg:
            return self.cfg[str(t)]
        if isinstance(t, Op):
            o, a = t.op, t.args
            if o == "len":
                return self.width(a[0])
            if o in ("phi", "ifexp"):
                return self.cint(a[1]) if self.cint(a[0]) else self.cint(a[2])
            if o == "neg":
                return -self.cint(a[0])
            if o == "log2_int":
                x = self.cint(a[0])
                return max(x.bit_length() - 1, 0)
            if o == "bits_for":
                x = self.cint(a[0])
                return max(x.bit_length(), 1)
            if o in ("max", "min"):
                xs = [self.cint(x) for x in a]
                return max(xs) if o == "max" else min(xs)
            if o == "lin":
                return self.cint(a[0])
            if len(a) == 2 and o in ("+", "-", "*", "//", "%", "**", "<<", ">>", "==", "!=", "<", "<=", ">", ">="):
                x, y = self.cint(a[0]), self.cint(a[1])
                return int({"+": lambda: x + y, "-": lambda: x - y, "*": lambda: x * y, "//": lambda: x // y, "%": lambda: x % y, "**": lambda: x ** y,
                            "<<": lambda: x << y, ">>": lambda: x >> y, "==": lambda: x == y, "!=": lambda: x != y, "<": lambda: x < y,
                            "<=": lambda: x <= y, ">": lambda: x > y, ">=": lambda: x >= y}[o]())
        raise Unresolved("config term %s" % k[:80])

    def width(self, t):
        if isinstance(t, Const):
            if isinstance(t.v, bool):
                return 1
            return max(int(t.v).bit_length(), 1)
        k = key(t)
        if ("len(%s)" % k) in self.cfg:
            return self.cfg["len(%s)" % k]
        if isinstance(t, Obj) and t.cls == "Signal":
            if t.args and not isinstance(t.args[0], ListV):
                return self.cint(t.args[0])
            if "max" in t.kwargs:
                return max((self.cint(t.kwargs["max"]) - 1).bit_length(), 1)
            if isinstance(t.meta.get("like"), V):
                return self.width(t.meta["like"])
            return 1
        if isinstance(t, Op):
            o, a = t.op, t.args
            if o in ("==", "!=", "<", "<=", ">", ">=", "index", "not", "and", "or"):
                return 1
            if o in ("~", ">>"):
                return self.width(a[0])
            if o in ("&", "|", "^", "+", "-"):
                return max(self.width(x) for x in a) + (1 if o in ("+", "-") else 0)
            if o in ("phi", "ifexp"):
                return self.width(a[1] if self.cint(a[0]) else a[2])
            if o == "Mux":
                return max(self.width(a[1]), self.width(a[2]))
            if o == "select":
                return max(self.width(x) for x in a[1:])
            if o == "<<":
                return self.width(a[0]) + self.val(a[1]) if not isinstance(a[1], Const) else self.width(a[0]) + a[1].v
            if o == "slice":
                lo, hi = self._bounds(t)
                return max(hi - lo, 0)
            if o == "Cat":
                return sum(self.width(x) for x in a)
            if o == "Replicate":
                return self.width(a[0]) * self.cint(a[1])
            if o == "trunc":
                return self.cint(a[1])
        m = self._model_width(k)
        if m is not None:
            return m
        if isinstance(t, (Sym, Obj)) and k.rsplit(".", 1)[-1] in ("valid", "ready", "last", "first", "we", "lock", "ce", "ack", "stb", "cyc"):
            return 1      # handshake / strobe fields of records and endpoints
        raise Unresolved("width of %s" % k[:80])

    def _bounds(self, t):
        w = None
        lo = 0 if (isinstance(t.args[1], Const) and t.args[1].v is None) else self.cint(t.args[1])
        hi = None if (isinstance(t.args[2], Const) and t.args[2].v is None) else self.cint(t.args[2])
        if lo < 0 or hi is None or hi < 0:
            w = self.width(t.args[0])
            if lo < 0:
                lo = max(w + lo, 0)
            if hi is None:
                hi = w
            elif hi < 0:
                hi = max(w + hi, 0)
        return lo, hi

    # ---- models of primitives that live outside the repository ---------------------------------------------------------------
    def _model_obj(self, k):
        if "." not in k:
            return None, None
        base, attr = k.rsplit(".", 1)
        return self.objs.get(base), attr

    def _model_width(self, k):
        o, attr = self._model_obj(k)
        if o is not None and o.cls == "Decoder" and attr == "o":
            return self.cint(o.args[0]) if o.args else None
        if o is not None and o.cls == "Decoder" and attr == "i":
            return max((self.cint(o.args[0]) - 1).bit_length(), 1) if o.args else None
        return None

    def _model_val(self, k):
        o, attr = self._model_obj(k)
        if o is not None and o.cls == "Decoder" and attr == "o":        # migen.genlib.coding.Decoder: o = 1 << i  (n = 0)
            return 1 << self.val(Sym(str(o) + ".i"))
        return None

    # ---- values ----------------------------------------------------------------------------------------------------------
    def guard_true(self, leaf, siblings):
        for c, p in leaf.guards:
            if isinstance(c, Op) and c.op == "case":
                sel, kk = c.args
                sv = self.val(sel)
                if isinstance(kk, Const) and isinstance(kk.v, str) and kk.v == "default" or (not isinstance(kk, Const) and str(kk) == "default"):
                    # default arm: no sibling arm of the same Case matches
                    keys = set()
                    for s_ in siblings:
                        for c2, _ in s_.guards:
                            if isinstance(c2, Op) and c2.op == "case" and key(c2.args[0]) == key(sel) and isinstance(c2.args[1], Const) and isinstance(c2.args[1].v, int):
                                keys.add(c2.args[1].v)
                    ok = sv not in keys
                else:
                    ok = sv == self.cint(kk)
                if ok != p:
                    return False
            else:
                if (self.val(c) != 0) != p:
                    return False
        if leaf.fsm is not None:
            cur = self.state.get(id(leaf.fsm))
            if cur is None:
                raise Unresolved("FSM state of %s not given" % leaf.fsm)
            if leaf.state != cur:
                return False
        return True

    def _apply(self, cur, leaf, width):
        val = self.val(leaf.value)
        r, chain = _root(leaf.target)
        if not chain:
            return val & ((1 << width) - 1)
        # single-level slice / index assignment
        t = leaf.target
        if len(chain) != 1:
            raise Unresolved("nested slice target %s" % key(t)[:60])
        if t.op == "index":
            lo = self.cint(t.args[1])
            hi = lo + 1
        else:
            lo, hi = self._bounds(t)
        m = ((1 << (hi - lo)) - 1) << lo
        return (cur & ~m) | ((val << lo) & m)

    def sig(self, t, nxt=False):
        k = key(t)
        if not nxt and k in self.env:
            return self.env[k]
        ck = (k, nxt)
        if ck in self.cache:
            return self.cache[ck]
        if ck in self.busy:
            raise Unresolved("combinational loop through %s" % k)
        leaves = (self.sync if nxt else self.comb).get(k)
        if not nxt:
            # record connects: dst.<field> follows src.<field> (forward fields only; `ready` / read-data style fields flow the other way and are not modelled)
            extra = []
            import re as _re
            norm = lambda x_: _re.sub(r"\.phases\[(\d+)\]", r".p\1", x_)      # interface.phases[i] and interface.p<i> are the same record
            for c in self.connects:
                dk = norm(key(c.target))
                if k.startswith(dk + ".") and k[len(dk) + 1:].split(".")[-1] not in ("ready", "rddata", "rddata_valid", "ack", "dat_r"):
                    fld = k[len(dk) + 1:]
                    om, kp = (c.stmt.omit or set()), c.stmt.keep
                    if fld.split(".")[0] in om or (kp is not None and fld.split(".")[0] not in kp):
                        continue
                    import copy as _c
                    m = _c.copy(c)
                    m.kind = "assign"
                    m.target = t
                    m.value = Sym(norm(key(c.value)) + "." + fld)
                    extra.append(m)
            if extra:
                leaves = sorted(list(leaves or []) + extra, key=lambda l_: l_.order)
        if not leaves:
            if nxt:
                raise Unresolved("no register driver of %s" % k)
            m = self._model_val(k)
            if m is not None:
                self.cache[ck] = m
                return m
            if k in self.sync:
                # a register read combinationally: its current value is a free input of the truth table; remembered so that the caller can enumerate it
                self.missing.add(k)
                return 0
            if isinstance(t, Obj) and t.cls == "Signal" and "." not in k:
                rs = t.kwargs.get("reset")
                return self.cint(rs) if rs is not None else 0      # a locally built signal that nothing drives keeps its reset value
            if self.default_undriven is not None:
                self.undriven.add(k)
                return self.default_undriven
            raise Unresolved("undriven input %s" % k)
        self.busy.add(ck)
        try:
            try:
                w = self.width(t)
            except Unresolved:
                w = 256          # width not known: do not truncate (record fields of interfaces take the width of what drives them)
            if nxt:
                cur = self.env.get(k, 0)
            else:
                rs = t.kwargs.get("reset") if isinstance(t, Obj) else None
                cur = self.cint(rs) if rs is not None else 0
            for l in leaves:
                if l.quants:
                    raise Unresolved("quantified statement drives %s" % k)
                if self.guard_true(l, leaves):
                    cur = self._apply(cur, l, w)
        finally:
            self.busy.discard(ck)
        self.cache[ck] = cur
        return cur

    def nextval(self, t):
        return self.sig(t, True)

    def val(self, t):
        if isinstance(t, Const):
            if isinstance(t.v, (bool, int)):
                return int(t.v)
            raise Unresolved("const %r" % (t.v,))
        if isinstance(t, (Obj, Sym)):
            return self.sig(t)
        if not isinstance(t, Op):
            raise Unresolved("term %r" % (t,))
        o, a = t.op, t.args
        k = key(t)
        if k in self.env:
            return self.env[k]
        if o in ("&", "and"):
            r = self.val(a[0])
            for x in a[1:]:
                r &= self.val(x)
            return r
        if o in ("|", "or"):
            r = self.val(a[0])
            for x in a[1:]:
                r |= self.val(x)
            return r
        if o == "^":
            r = self.val(a[0])
            for x in a[1:]:
                r ^= self.val(x)
            return r
        if o == "~":
            return ~self.val(a[0]) & ((1 << self.width(a[0])) - 1)
        if o == "not":
            return int(not self.val(a[0]))
        if o in ("==", "!=", "<", "<=", ">", ">="):
            x, y = self.val(a[0]), self.val(a[1])
            return int({"==": x == y, "!=": x != y, "<": x < y, "<=": x <= y, ">": x > y, ">=": x >= y}[o])
        if o == "+":
            return sum(self.val(x) for x in a)
        if o == "-":
            return self.val(a[0]) - self.val(a[1])
        if o == "*":
            return self.val(a[0]) * self.val(a[1])
        if o == "<<":
            return self.val(a[0]) << self.val(a[1])
        if o == ">>":
            return self.val(a[0]) >> self.val(a[1])
        if o == "slice":
            lo, hi = self._bounds(t)
            return (self.val(a[0]) >> lo) & ((1 << max(hi - lo, 0)) - 1)
        if o == "index":
            return (self.val(a[0]) >> self.val(a[1])) & 1
        if o == "Cat":
            r, sh = 0, 0
            for x in a:
                w = self.width(x)
                r |= (self.val(x) & ((1 << w) - 1)) << sh
                sh += w
            return r
        if o == "Replicate":
            w, n = self.width(a[0]), self.cint(a[1])
            x = self.val(a[0]) & ((1 << w) - 1)
            r = 0
            for i in range(n):
                r |= x << (i * w)
            return r
        if o == "select":
            i = self.val(a[0])
            items = a[1:]
            return self.val(items[min(i, len(items) - 1)])
        if o == "Mux":
            return self.val(a[1]) if self.val(a[0]) else self.val(a[2])
        if o in ("phi", "ifexp"):
            return self.val(a[1]) if self.cint(a[0]) else self.val(a[2])
        if o == "trunc":
            return self.val(a[0]) & ((1 << self.cint(a[1])) - 1)
        if o == "lin":
            return self.val(a[0])
        if o in ("**", "//", "%", "neg", "len", "log2_int", "bits_for", "max", "min"):      # configuration-time arithmetic inside a hardware term
            return self.cint(t)
        raise Unresolved("operator %s in %s" % (o, k[:80]))
