"""CLI: python3 -m lsa.check C03 [--tier quick|thorough]   |   python3 -m lsa.check --replay <file>

exit 0: every obligation of the property HOLDS on /repo's current tree (or is a listed known finding)
exit 1: a specific construct refutes an obligation  -> prints  VIOLATION property=<id> replay=<path>
exit 2: ANALYSIS-ERROR - the analyser could not interpret the tree (never counted as pass or violation)
"""
import importlib
import json
import os
import sys
import time
import traceback

from . import report, values
from .pyfront import Repo

TRUSTED = [
    "Python ast module represents the source faithfully; the analyser's reading of Python evaluation order for the supported subset",
    "Migen 0.9.2 / LiteX 2024.12 primitive contracts read once by hand: Module.comb/sync (last assignment wins), If/Elif/Else, Case, "
    "FSM.act/NextState/NextValue/delayed_enter, Record.connect, stream.Endpoint handshake, stream.SyncFIFO/Buffer/AsyncFIFO/"
    "ClockDomainCrossing (lossless, ordered), RoundRobin(SP_CE), timeline(), litex.soc.cores.ecc",
    "reference tables under /verif/refdata transcribed from the cited JEDEC documents",
]


def selfvalidate(ctx, prop):
    """thorough tier: run this property's part of the mutant / benign-twin / seeded-change corpus on scratch copies.
    A surviving mutant or a flagged twin means the CHECKER is unreliable: reported as ANALYSIS-ERROR (exit 2), never as a violation."""
    from . import selftest
    items = [m for m in selftest.corpus() if m["prop"] == prop]
    ob = ctx.ob(prop + ".selftest", "checker self-validation: every corpus mutant / adopted seeded change of this property is REFUTED on a scratch copy of the "
                "current sources and every benign twin HOLDS (scratch copies under $TMPDIR, removed immediately)", 1)
    from concurrent.futures import ThreadPoolExecutor
    with ThreadPoolExecutor(max_workers=int(os.environ.get("LSA_JOBS", "16"))) as ex:
        for m, status, detail in ex.map(selftest.run_one, items):
            ob.instance("%s (%s)" % (m["id"], m["expect"]), status)
            if status != "ok":
                ob.unknown("self-test item %s: %s %s" % (m["id"], status, detail[-200:].replace("\n", " | ")))
    ctx.stat("selftest_items", len(items))


def main(argv=None):
    argv = list(sys.argv[1:] if argv is None else argv)
    tier = os.environ.get("VERIF_TIER", "quick")
    seed = int(os.environ.get("VERIF_SEED", "0") or 0)
    prop = None
    replay = None
    i = 0
    while i < len(argv):
        a = argv[i]
        if a == "--tier":
            tier = argv[i + 1]; i += 2
        elif a == "--replay":
            replay = argv[i + 1]; i += 2
        else:
            prop = a; i += 1
    if replay:
        with open(replay) as f:
            r = json.load(f)
        prop = r["property"]
        print("replaying %s obligation %s construct [%s]" % (prop, r["obligation"], r["key"]))
    if tier not in ("quick", "thorough"):
        tier = "quick"
    if not prop:
        print(__doc__)
        return 2
    t0 = time.time()
    try:
        repo = Repo()
        ctx = report.Ctx(prop, tier, seed, repo)
        mod = importlib.import_module("lsa.rules.%s" % prop.lower())
        # wall-clock guard: an analysis that does not come back (a tree the analyser cannot digest) is an ANALYSIS-ERROR, never a hang
        import signal

        class _Timeout(Exception):
            pass

        def _alarm(signum, frame):
            raise _Timeout()
        limit = int(os.environ.get("LSA_RULE_TIMEOUT", "600"))
        try:
            signal.signal(signal.SIGALRM, _alarm)
            signal.alarm(limit)
        except Exception:
            pass
        try:
            mod.run(ctx)
        except report.AnalysisError as e:
            o = ctx.ob(e.ob, "analysis aborted")
            o.unknown(e.reason)
        except values.TooBig as e:
            o = ctx.ob(prop + ".0", "analysis aborted")
            o.unknown(str(e))
        except _Timeout:
            o = ctx.ob(prop + ".0", "analysis aborted")
            o.unknown("the rules of %s did not finish within %d s on this tree" % (prop, limit))
        finally:
            try:
                signal.alarm(0)
            except Exception:
                pass
        if tier == "thorough" and not replay and not os.environ.get("LSA_NO_EVIDENCE"):
            selfvalidate(ctx, prop)
        code = report.finish(ctx, t0, TRUSTED)
        if replay:
            for o in ctx.obligations:
                for rr in o.refutations:
                    if o.oid == r["obligation"] and rr["key"] == r["key"]:
                        print("REPLAY: still refuted: %s\n%s" % (rr["msg"], json.dumps(rr["detail"], indent=1, default=str)))
                        return 1
            print("REPLAY: the recorded construct no longer refutes the obligation")
            return 0 if code != 2 else 2
        print("%s tier=%s exit=%d wall=%.2fs obligations=%d" % (prop, tier, code, time.time() - t0, len(ctx.obligations)))
        return code
    except Exception as e:   # analyser bug or unreadable tree: never a violation
        print("ANALYSIS-ERROR property=%s exception %s: %s" % (prop, type(e).__name__, e))
        traceback.print_exc()
        return 2


if __name__ == "__main__":
    sys.exit(main())
