"""Bit-provenance domain: evaluate slice / Cat / Replicate / shift terms to a list of per-bit sources
under an integer valuation of the configuration symbols (every valuation covers all 2^W address values)."""
from .values import Const, Sym, Op, Obj, ListV, DictV
from .elab import log2_int, bits_for


class Unresolved(Exception):
    pass


def ieval(t, env):
    """Integer / boolean evaluation of a configuration-time term under env {symbol path: value}."""
    if isinstance(t, Const):
        return t.v
    if isinstance(t, (Sym, Obj)):
        k = str(t)
        if k in env:
            return env[k]
        raise Unresolved(k)
    if isinstance(t, Op):
        o, a = t.op, t.args
        if o in ("phi", "ifexp"):
            return ieval(a[1], env) if ieval(a[0], env) else ieval(a[2], env)
        if o == "index" and isinstance(a[0], DictV):
            k = ieval(a[1], env)
            for kk, v in a[0].items:
                if isinstance(kk, Const) and kk.v == k:
                    return ieval(v, env)
            raise Unresolved("key %r" % (k,))
        if o == "not":
            return not ieval(a[0], env)
        if o == "neg":
            return -ieval(a[0], env)
        if o in ("and", "or"):
            vals = [ieval(x, env) for x in a]
            r = vals[0]
            for v in vals[1:]:
                r = (r and v) if o == "and" else (r or v)
            return r
        if o in ("max", "min"):
            vals = [ieval(x, env) for x in a]
            return max(vals) if o == "max" else min(vals)
        if o == "log2_int":
            v = ieval(a[0], env)
            return log2_int(v, False) if v > 0 else 0
        if o == "bits_for":
            return bits_for(ieval(a[0], env))
        if o in ("int", "bool"):
            return int(ieval(a[0], env))
        if o == "ceil":
            import math
            return math.ceil(ieval(a[0], env))
        if o == "len":
            raise Unresolved("len(%s)" % (a[0],))
        if len(a) == 2:
            x, y = ieval(a[0], env), ieval(a[1], env)
            try:
                return {"+": lambda: x + y, "-": lambda: x - y, "*": lambda: x * y, "//": lambda: x // y, "/": lambda: x / y,
                        "%": lambda: x % y, "**": lambda: x ** y, "<<": lambda: x << y, ">>": lambda: x >> y,
                        "==": lambda: x == y, "!=": lambda: x != y, "<": lambda: x < y, "<=": lambda: x <= y,
                        ">": lambda: x > y, ">=": lambda: x >= y, "is": lambda: x is y, "isnot": lambda: x is not y}[o]()
            except KeyError:
                pass
    raise Unresolved(str(t)[:80])


ZERO = ("const", 0)
ONE = ("const", 1)


def bitvec(t, env, width):
    """-> list of per-bit sources, LSB first: ("const", b) | (signal name, bit index) | ("or", a, b)
    `width(name)` gives the width of a leaf signal."""
    if isinstance(t, Const):
        v = t.v
        if isinstance(v, bool):
            return [ONE if v else ZERO]
        if isinstance(v, int):
            n = max(v.bit_length(), 1)
            return [ONE if (v >> i) & 1 else ZERO for i in range(n)]
        raise Unresolved("const %r" % (v,))
    if isinstance(t, (Sym, Obj)):
        k = str(t)
        if k in env and isinstance(env[k], int) and not k.endswith(".addr"):
            return bitvec(Const(env[k]), env, width)
        return [(k, i) for i in range(width(k))]
    if isinstance(t, Op):
        o, a = t.op, t.args
        if o in ("phi", "ifexp"):
            return bitvec(a[1] if ieval(a[0], env) else a[2], env, width)
        if o == "slice":
            base = bitvec(a[0], env, width)
            lo = None if (isinstance(a[1], Const) and a[1].v is None) else ieval(a[1], env)
            hi = None if (isinstance(a[2], Const) and a[2].v is None) else ieval(a[2], env)
            # Migen slicing: python semantics on the bit list, bounds clipped
            return base[slice(lo, hi)]
        if o == "trunc":      # a wire narrower than its value (ruleutil.View alias inlining)
            return bitvec(a[0], env, width)[:ieval(a[1], env)]
        if o == "index":
            base = bitvec(a[0], env, width)
            return [base[ieval(a[1], env)]]
        if o == "Cat":
            out = []
            for x in a:
                out.extend(bitvec(x, env, width))
            return out
        if o == "Replicate":
            v = bitvec(a[0], env, width)
            return v * ieval(a[1], env)
        if o == "<<":
            return [ZERO] * ieval(a[1], env) + bitvec(a[0], env, width)
        if o == "|":
            x, y = bitvec(a[0], env, width), bitvec(a[1], env, width)
            n = max(len(x), len(y))
            x, y = x + [ZERO] * (n - len(x)), y + [ZERO] * (n - len(y))
            out = []
            for p, q in zip(x, y):
                if p == ZERO:
                    out.append(q)
                elif q == ZERO:
                    out.append(p)
                else:
                    out.append(("or", p, q))
            return out
    raise Unresolved(str(t)[:80])
