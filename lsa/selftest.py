"""Self-validation of the checker: apply each corpus mutant / benign twin to a scratch copy of the
repository sources (never to /repo), run the property check against the copy, compare the verdict.

    python3 -m lsa.selftest [C03 ...] [-j 16] [--list]

exit 0: every mutant REFUTED (exit 1 of the check, naming the expected obligation) and every benign
twin HOLDS (exit 0); exit 2 otherwise.  Seeded changes under /verif/seeded/*/patch.diff are included.
"""
import json
import os
import shutil
import subprocess
import sys
import tempfile
from concurrent.futures import ThreadPoolExecutor

VERIF = os.path.dirname(os.path.dirname(os.path.abspath(__file__)))
REPO = os.environ.get("LSA_REPO", "/repo")


def corpus():
    from .mutants import MUTANTS
    items = list(MUTANTS)
    sd = os.path.join(VERIF, "seeded")
    if os.path.isdir(sd):
        for d in sorted(os.listdir(sd)):
            mp = os.path.join(sd, d, "meta.json")
            pp = os.path.join(sd, d, "patch.diff")
            if os.path.exists(mp) and os.path.exists(pp):
                meta = json.load(open(mp))
                if meta.get("detected_by"):
                    items.append({"id": "seeded/" + d, "prop": meta["property"], "patch": pp, "expect": "refuted",
                                  "ob": meta.get("detected_by")})
    # behaviour-preserving refactorings written by independent reviewers: every check whose property is anchored in a touched file must stay green
    bd = os.path.join(VERIF, "benign")
    if os.path.isdir(bd):
        anchors = {}
        try:
            for line in open(os.path.join(VERIF, "properties.jsonl")):
                pr = json.loads(line)
                anchors[pr["id"]] = set(pr.get("anchors", {}).get("files", []))
        except Exception:
            anchors = {}
        extra = {"litedram/common.py": {"C01", "C02", "C03", "C05", "C06", "C17"}, "litedram/core/controller.py": {"C01", "C04", "C06", "C08"},
                 "litedram/frontend/dma.py": {"C13", "C14"}, "litedram/core/bankmachine.py": {"C06"}, "litedram/core/multiplexer.py": {"C04"},
                 "litedram/core/refresher.py": {"C03"}, "litedram/modules.py": {"C04"}}
        for f in sorted(os.listdir(bd)):
            if not f.endswith(".diff"):
                continue
            pp = os.path.join(bd, f)
            touched = {l[6:].strip() for l in open(pp) if l.startswith("+++ b/")}
            for prop, files in sorted(anchors.items()):
                if touched & files or any(prop in extra.get(t, ()) for t in touched):
                    items.append({"id": "benign/%s" % f[:-5], "prop": prop, "patch": pp, "expect": "holds"})
    # property-PRESERVING functional changes written by independent reviewers (keep/): a check may end without verdict on a re-implementation it cannot
    # read (exit 2), but it must never report a VIOLATION
    kd = os.path.join(VERIF, "keep")
    if os.path.isdir(kd):
        for f in sorted(os.listdir(kd)):
            if not f.endswith(".diff"):
                continue
            pp = os.path.join(kd, f)
            touched = {l[6:].strip() for l in open(pp) if l.startswith("+++ b/")}
            for prop, files in sorted(anchors.items()):
                if touched & files or any(prop in extra.get(t, ()) for t in touched) or f.startswith(prop + "_"):
                    items.append({"id": "keep/%s" % f[:-5], "prop": prop, "patch": pp, "expect": "no-violation"})
    return items


def run_one(m):
    tmp = tempfile.mkdtemp(prefix="lsa_selftest_")
    try:
        shutil.copytree(os.path.join(REPO, "litedram"), os.path.join(tmp, "litedram"))
        if "patch" in m:
            r = subprocess.run(["patch", "-p1", "-s", "-d", tmp, "-i", m["patch"]], capture_output=True, text=True)
            if r.returncode != 0:
                return m, "STALE", "patch does not apply: " + (r.stdout + r.stderr)[-300:]
        else:
            for e in m["edits"]:
                p = os.path.join(tmp, e["file"])
                s = open(p).read()
                if s.count(e["old"]) < 1:
                    return m, "STALE", "anchor text not found in %s: %r" % (e["file"], e["old"][:60])
                if "nth" in e:
                    idx = -1
                    for _ in range(e["nth"]):
                        idx = s.find(e["old"], idx + 1)
                    if idx < 0:
                        return m, "STALE", "occurrence %d of anchor not found" % e["nth"]
                    s = s[:idx] + e["new"] + s[idx + len(e["old"]):]
                else:
                    s = s.replace(e["old"], e["new"], e.get("count", 1))
                open(p, "w").write(s)
        env = dict(os.environ, LSA_REPO=tmp, LSA_NO_EVIDENCE="1")
        r = subprocess.run([sys.executable, "-m", "lsa.check", m["prop"], "--tier", m.get("tier", "quick")], cwd=VERIF, env=env,
                           capture_output=True, text=True, timeout=600)
        out = r.stdout
        if m["expect"] == "refuted":
            if r.returncode != 1:
                return m, "MISSED", "exit %d\n%s" % (r.returncode, out[-600:])
            obs = m.get("ob")
            if obs:
                obs = [obs] if isinstance(obs, str) else obs
                if not any(("REFUTED %s " % o) in out for o in obs):
                    return m, "WRONG-OB", out[-800:]
            return m, "ok", ""
        elif m["expect"] == "no-violation":
            if r.returncode == 1 or "VIOLATION" in out:
                return m, "FALSE-ALARM", "exit %d\n%s" % (r.returncode, out[-800:])
            return m, "ok", ""
        else:
            if r.returncode != 0:
                return m, "FALSE-ALARM", "exit %d\n%s" % (r.returncode, out[-800:])
            return m, "ok", ""
    finally:
        shutil.rmtree(tmp, ignore_errors=True)


def main():
    args = sys.argv[1:]
    jobs = 16
    props = []
    i = 0
    while i < len(args):
        if args[i] == "-j":
            jobs = int(args[i + 1]); i += 2
        elif args[i] == "--list":
            for m in corpus():
                print(m["id"], m["prop"], m["expect"], m.get("ob"))
            return 0
        else:
            props.append(args[i]); i += 1
    items = [m for m in corpus() if not props or m["prop"] in props or m["id"] in props]
    bad = 0
    with ThreadPoolExecutor(max_workers=jobs) as ex:
        for m, status, detail in ex.map(run_one, items):
            print("%-12s %-8s %-8s %s" % (status, m["prop"], m["expect"], m["id"]))
            if status != "ok":
                bad += 1
                print("    " + detail.replace("\n", "\n    "))
    print("selftest: %d items, %d not as expected" % (len(items), bad))
    return 0 if bad == 0 else 2


if __name__ == "__main__":
    sys.exit(main())
