"""Front end: parse every litedram/**/*.py of the repository under analysis with `ast`.

Builds a module table (classes, functions, module-level assignments, intra-package imports) and keeps
the SHA-256 of every file so evidence can state exactly what was analysed.
"""
import ast
import hashlib
import os

from .values import ClassV, Func

REPO = os.environ.get("LSA_REPO", "/repo")


class ModuleInfo:
    def __init__(self, name, path, src):
        self.name = name
        self.path = path
        self.src = src
        self.sha = hashlib.sha256(src.encode()).hexdigest()
        self.tree = ast.parse(src, filename=path)
        self.lines = src.splitlines()
        self.star_imports = []      # module names (litedram.*) imported with *
        self.named_imports = {}     # local name -> (module, name)
        self.mod_aliases = {}       # local name -> module name (import x.y as z / from x import y-module)
        self.env = None             # filled by elab (module-level Env)
        self.classes = {}
        self.functions = {}
        self.assigns = []           # module-level ast.Assign / AugAssign nodes in order
        for node in self.tree.body:
            if isinstance(node, ast.ClassDef):
                self.classes[node.name] = node
            elif isinstance(node, ast.FunctionDef):
                self.functions[node.name] = node
            elif isinstance(node, (ast.Assign, ast.AugAssign, ast.AnnAssign)):
                self.assigns.append(node)
            elif isinstance(node, ast.ImportFrom) and node.module and node.level == 0:
                for a in node.names:
                    if a.name == "*":
                        self.star_imports.append(node.module)
                    else:
                        self.named_imports[a.asname or a.name] = (node.module, a.name)
            elif isinstance(node, ast.Import):
                for a in node.names:
                    if a.asname:
                        self.mod_aliases[a.asname] = a.name

    def rel(self):
        return os.path.relpath(self.path, REPO_ROOT[0])


REPO_ROOT = [REPO]


class Repo:
    def __init__(self, root=None):
        self.root = root or os.environ.get("LSA_REPO", "/repo")
        REPO_ROOT[0] = self.root
        self.modules = {}
        self.consulted = set()
        pkg = os.path.join(self.root, "litedram")
        if not os.path.isdir(pkg):
            raise FileNotFoundError("no litedram package under %s" % self.root)
        for dirpath, dirnames, filenames in os.walk(pkg):
            dirnames.sort()
            for fn in sorted(filenames):
                if not fn.endswith(".py"):
                    continue
                path = os.path.join(dirpath, fn)
                rel = os.path.relpath(path, self.root)[:-3].replace(os.sep, ".")
                if rel.endswith(".__init__"):
                    rel = rel[:-9]
                with open(path, encoding="utf-8") as f:
                    src = f.read()
                self.modules[rel] = ModuleInfo(rel, path, src)

    def module(self, name):
        m = self.modules.get(name)
        if m is not None:
            self.consulted.add(name)
        return m

    def file_module(self, relpath):
        """'litedram/core/bankmachine.py' -> ModuleInfo"""
        name = relpath[:-3].replace("/", ".")
        if name.endswith(".__init__"):
            name = name[:-9]
        return self.module(name)

    def find_class(self, clsname, prefer=None):
        hits = [m for m in self.modules.values() if clsname in m.classes]
        if prefer:
            for m in hits:
                if m.name == prefer:
                    return m
        return hits[0] if hits else None

    def digests(self, names=None):
        names = sorted(names if names is not None else self.consulted)
        return {self.modules[n].rel(): self.modules[n].sha[:16] for n in names if n in self.modules}

    def stats(self):
        ncls = sum(len(m.classes) for m in self.modules.values())
        nfn = sum(len(m.functions) for m in self.modules.values())
        return {"modules": len(self.modules), "classes": ncls, "functions": nfn}


def unparse(node):
    try:
        return ast.unparse(node)
    except Exception:
        return "<?>"
