"""Hardware IR produced by the elaborator: guarded leaves, FSM tables, instances."""
from .values import (Assign, IfS, CaseS, NextStateS, NextValueS, ConnectS, TimelineS, OtherS, Const, Op, Obj, ListV,
                     Comp, HStmt, is_none)


class Leaf:
    __slots__ = ("kind", "domain", "fsm", "state", "guards", "target", "value", "cfg", "inst", "loc", "order",
                 "stmt", "quants", "extra")

    def __init__(self, kind, domain, guards, target, value, loc, stmt=None):
        self.kind = kind          # assign | next | nextvalue | connect | timeline | other
        self.domain = domain      # comb | sync | sync:<cd> | fsm
        self.fsm = None
        self.state = None
        self.guards = tuple(guards)   # ((term, polarity) ...) ; term may be Op('case', (sel, key))
        self.target = target
        self.value = value
        self.cfg = ()
        self.inst = ""
        self.loc = loc
        self.order = 0
        self.stmt = stmt
        self.quants = ()
        self.extra = None

    def gstr(self):
        return " & ".join(("" if p else "~") + str(c) for c, p in self.guards)

    def __str__(self):
        dom = self.domain if self.fsm is None else "fsm:%s:%s" % (self.fsm, self.state)
        if self.kind == "assign":
            body = "%s <= %s" % (self.target, self.value)
        elif self.kind == "next":
            body = "NextState(%s)" % (self.value,)
        elif self.kind == "nextvalue":
            body = "NextValue(%s, %s)" % (self.target, self.value)
        else:
            body = str(self.stmt)
        g = self.gstr()
        return "[%s] %s%s" % (dom, ("if %s: " % g) if g else "", body)

    __repr__ = __str__


def truthy(c):
    """Python/Migen constant truthiness of a folded condition; None if not constant."""
    if isinstance(c, Const):
        if isinstance(c.v, (bool, int)):
            return bool(c.v)
    return None


def flatten(stmts, guards, out, domain):
    """Flatten a statement tree into leaves; constant guards are folded."""
    for st in stmts:
        if isinstance(st, ListV):
            flatten(st.items, guards, out, domain)
        elif isinstance(st, IfS):
            neg = []
            dead = False
            for cond, body in st.branches:
                if dead:
                    break
                if cond is None:
                    flatten(body, guards + neg, out, domain)
                    break
                t = truthy(cond)
                if t is True:
                    flatten(body, guards + neg, out, domain)
                    dead = True
                elif t is False:
                    continue
                else:
                    flatten(body, guards + neg + [(cond, True)], out, domain)
                    neg = neg + [(cond, False)]
        elif isinstance(st, CaseS):
            keys = [k for k, _ in st.cases]
            for k, body in st.cases:
                flatten(body, guards + [(Op("case", (st.sel, k)), True)], out, domain)
            lf = Leaf("other", domain, guards, None, None, st.loc, st)
            lf.extra = "case"
            out.append(lf)
        elif isinstance(st, Assign):
            out.append(Leaf("assign", domain, guards, st.target, st.value, st.loc, st))
        elif isinstance(st, NextStateS):
            out.append(Leaf("next", domain, guards, None, st.state, st.loc, st))
        elif isinstance(st, NextValueS):
            out.append(Leaf("nextvalue", domain, guards, st.target, st.value, st.loc, st))
        elif isinstance(st, ConnectS):
            out.append(Leaf("connect", domain, guards, st.dst, st.src, st.loc, st))
        elif isinstance(st, TimelineS):
            out.append(Leaf("timeline", domain, guards, None, st.trigger, st.loc, st))
        elif isinstance(st, Comp):
            sub = []
            flatten([st.elt], guards, sub, domain)
            for lf in sub:
                lf.quants = ((st.var, st.it),) + lf.quants
            out.extend(sub)
        elif isinstance(st, Const) and (st.v is None):
            continue
        elif isinstance(st, HStmt):
            out.append(Leaf("other", domain, guards, None, None, st.loc, st))
        else:
            lf = Leaf("other", domain, guards, None, st, None, OtherS(str(st), None))
            out.append(lf)


class FSMInfo:
    def __init__(self, obj):
        self.obj = obj
        self.states = []          # order of first act
        self.acts = {}            # state -> [Leaf]
        self.delayed = []         # (name, target, delay V, cfg, loc)
        self.reset_state = None
        self.inst = ""
        self.cfg = {}             # state -> cfg tuple of first act (configuration context)

    def leaves(self, state=None):
        if state is not None:
            return list(self.acts.get(state, []))
        r = []
        for s in self.states:
            r.extend(self.acts[s])
        return r

    def transitions(self):
        """[(src, guards, dst, leaf)] including delayed_enter chains as (name -> target, delay)."""
        r = []
        for s in self.states:
            for lf in self.acts[s]:
                if lf.kind == "next":
                    d = lf.value.v if isinstance(lf.value, Const) else str(lf.value)
                    r.append((s, lf.guards, d, lf))
        return r


class Design:
    def __init__(self):
        self.leaves = []
        self.fsms = {}            # Obj -> FSMInfo
        self.instances = {}       # path -> Obj
        self.objs = []            # all Obj created
        self.unknown = []         # (what, loc)
        self.top = None
        self.names = {}
        self.submodules = []      # (owner path, name, value)
        self.cfgconds = {}        # key -> term

    # -- queries -------------------------------------------------------------------------------
    def all_leaves(self, inst=None):
        r = list(self.leaves)
        for f in self.fsms.values():
            r.extend(f.leaves())
        if inst is not None:
            r = [l for l in r if l.inst == inst]
        return r

    def fsm_named(self, name):
        for o, f in self.fsms.items():
            if str(o) == name:
                return f
        return None

    def fsms_of(self, inst=""):
        return [f for f in self.fsms.values() if f.inst == inst]

    def drivers(self, name, inst=None):
        """All leaves (assign / nextvalue) whose target prints as `name`."""
        return [l for l in self.all_leaves(inst) if l.kind in ("assign", "nextvalue") and str(l.target) == name]

    def dump(self, inst=None):
        lines = []
        for l in self.leaves:
            if inst is None or l.inst == inst:
                lines.append("%s  {%s} @%s" % (l, ",".join(("" if p else "!") + k for k, p, _ in l.cfg), l.loc[1] if l.loc else "?"))
        for o, f in self.fsms.items():
            if inst is not None and f.inst != inst:
                continue
            lines.append("FSM %s (inst=%r reset=%s)" % (o, f.inst, f.reset_state))
            for s in f.states:
                lines.append("  state %s" % s)
                for l in f.acts[s]:
                    lines.append("     %s  {%s} @%s" % (l, ",".join(("" if p else "!") + k for k, p, _ in l.cfg), l.loc[1] if l.loc else "?"))
            for d in f.delayed:
                lines.append("  delayed_enter %s -> %s after %s" % d[:3])
        return "\n".join(lines)
