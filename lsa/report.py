"""Obligation bookkeeping, verdicts, evidence files, known findings, replay files."""
import json
import os
import time

VERIF = os.path.dirname(os.path.dirname(os.path.abspath(__file__)))
HOLDS, REFUTED, UNKNOWN = "HOLDS", "REFUTED", "UNKNOWN"


class AnalysisError(Exception):
    """The analyser met a shape it cannot interpret: exit 2, never a violation, never a pass."""

    def __init__(self, ob, reason):
        super().__init__("%s: %s" % (ob, reason))
        self.ob = ob
        self.reason = reason


class Obligation:
    def __init__(self, oid, rule, min_instances=1):
        self.oid = oid
        self.rule = rule
        self.min_instances = min_instances
        self.instances = []     # dicts: {"what":..., "detail":...}
        self.refutations = []   # dicts: {"key":..., "msg":..., "loc":...}
        self.unknowns = []      # reasons
        self.assumptions = []

    def instance(self, what, detail=None, nontrivial=True):
        self.instances.append({"what": what, "detail": detail, "nontrivial": bool(nontrivial)})

    def refute(self, key, msg, loc=None, detail=None):
        self.refutations.append({"key": key, "msg": msg, "loc": _loc(loc), "detail": detail})

    def unknown(self, reason):
        self.unknowns.append(reason)

    def need(self, cond, reason):
        if not cond:
            self.unknown(reason)
        return bool(cond)

    def verdict(self):
        if self.unknowns:
            return UNKNOWN
        if len(self.instances) + len(self.refutations) < self.min_instances:
            return UNKNOWN
        if self.refutations:
            return REFUTED
        return HOLDS


def _loc(loc):
    if not loc:
        return None
    if isinstance(loc, str):
        return loc
    return "%s:%s" % (loc[0], loc[1])


class Ctx:
    """Handed to each rule module's run(ctx)."""

    def __init__(self, prop, tier, seed, repo):
        self.prop = prop
        self.tier = tier
        self.seed = seed
        self.repo = repo
        self.obligations = []
        self.assumptions = []
        self.stats = {}
        self.notes = []

    def ob(self, oid, rule, min_instances=1):
        o = Obligation(oid, rule, min_instances)
        self.obligations.append(o)
        return o

    def assume(self, text):
        if text not in self.assumptions:
            self.assumptions.append(text)

    def stat(self, k, v=1):
        self.stats[k] = self.stats.get(k, 0) + v


def load_known():
    p = os.path.join(VERIF, "known_findings.json")
    if not os.path.exists(p):
        return {"known": [], "fixed": []}
    with open(p) as f:
        return json.load(f)


def finish(ctx, t0, trusted):
    """Print the report, write evidence + replay files, return the exit code."""
    known = load_known()
    known_keys = {(k["property"], k["obligation"], k["key"]): k for k in known.get("known", [])}
    violations = []
    errors = []
    nknown = 0
    for o in ctx.obligations:
        v = o.verdict()
        if v == UNKNOWN:
            reasons = o.unknowns or ["only %d instance(s) found, %d confirmed by hand as minimum" % (len(o.instances), o.min_instances)]
            for r in reasons:
                errors.append((o, r))
        for r in o.refutations:
            kk = (ctx.prop, o.oid, r["key"])
            if kk in known_keys:
                nknown += 1
                print("KNOWN-FINDING: property=%s obligation=%s %s [%s] (%s)" % (ctx.prop, o.oid, known_keys[kk]["what"], r["key"], r["loc"]))
            else:
                violations.append((o, r))
    noev = bool(os.environ.get("LSA_NO_EVIDENCE"))
    outdir = VERIF if not noev else os.environ.get("TMPDIR", "/tmp")
    os.makedirs(os.path.join(VERIF, "evidence"), exist_ok=True)
    os.makedirs(os.path.join(outdir, "replay"), exist_ok=True)
    for o in ctx.obligations:
        print("%-8s %-8s instances=%-3d %s" % (o.oid, o.verdict() if not (o.refutations and all((ctx.prop, o.oid, r["key"]) in known_keys for r in o.refutations) and not o.unknowns) else "KNOWN", len(o.instances), o.rule[:110]))
    code = 0
    shown = {}
    for o, r in violations:
        shown[o.oid] = shown.get(o.oid, 0) + 1
        if shown[o.oid] > 5:
            code = 1
            continue
        rp = os.path.join(outdir, "replay", "%s_%s_%s.json" % (ctx.prop, o.oid, _safe(r["key"])))
        with open(rp, "w") as f:
            json.dump({"property": ctx.prop, "obligation": o.oid, "rule": o.rule, "key": r["key"], "msg": r["msg"],
                       "loc": r["loc"], "detail": r["detail"]}, f, indent=1, default=str)
        print("REFUTED %s [%s] at %s: %s" % (o.oid, r["key"], r["loc"], r["msg"]))
        print("VIOLATION property=%s replay=%s" % (ctx.prop, rp))
        code = 1
    for oid, n in shown.items():
        if n > 5:
            print("... and %d more constructs refuting %s (all listed in the evidence file's obligation_table)" % (n - 5, oid))
    for o, r in errors:
        print("ANALYSIS-ERROR property=%s obligation=%s %s" % (ctx.prop, o.oid, r))
    if errors and code == 0:
        code = 2
    if not noev:
        write_evidence(ctx, t0, trusted, len(violations), nknown, len(errors))
    return code


def _safe(s):
    return "".join(c if c.isalnum() or c in "-_." else "_" for c in s)[:80]


def write_evidence(ctx, t0, trusted, nviol, nknown, nerr):
    insts = []
    seen = set()
    nontrivial = 0
    for o in ctx.obligations:
        for i in o.instances:
            insts.append((o.oid, i))
            k = (o.oid, i["what"], json.dumps(i["detail"], default=str, sort_keys=True))
            if i["nontrivial"] and i["detail"] not in (None, {}, [], "") and k not in seen:
                nontrivial += 1
            seen.add(k)
    samples = []
    for o in ctx.obligations:
        for i in o.instances[:3]:
            samples.append({"obligation": o.oid, "instance": i["what"], "detail": i["detail"]})
    discharged = sum(1 for o in ctx.obligations if o.verdict() == HOLDS)
    ev = {
        "property_id": ctx.prop,
        "tier": ctx.tier,
        "seed": ctx.seed,
        "level": "other",
        "coverage": {
            "explanation": "Static analysis (ast-based symbolic elaboration of the Migen generator and table/dataflow rules) of "
                           "/repo's current sources; each obligation is a structural necessary condition of the property, "
                           "established for every instance enumerated below. It decides those clauses, not the behaviour.",
            "evaluations": len(insts),
            "distinct_nontrivial": nontrivial,
            "rule": "an evaluation = one obligation instance (a construct of the source: FSM state, guarded statement, table "
                    "entry, parameter valuation) checked against its rule; non-trivial = the rule marked the instance as such AND it "
                    "carries a non-empty detail record (resolved guard set / term / table entry / bit map); distinct by (obligation, construct, detail)",
            "samples": samples[:40] or [{"note": "no instance"}],
            "obligations": len(ctx.obligations),
            "discharged": discharged,
            "obligation_table": [{"id": o.oid, "rule": o.rule, "verdict": o.verdict(), "instances": len(o.instances),
                                  "min_instances": o.min_instances,
                                  "refutations": [{"key": r["key"], "loc": r["loc"], "msg": r["msg"]} for r in o.refutations],
                                  "unknown": o.unknowns} for o in ctx.obligations],
            "files_analysed": ctx.repo.digests(),
            "repo_stats": ctx.repo.stats(),
            "engine_stats": ctx.stats,
            "trusted_base": trusted,
            "known_findings_reported": nknown,
            "analysis_errors": nerr,
            "exhaustive": bool(getattr(ctx, "exhaustive", False)),
        },
        "assumptions": ctx.assumptions + sum((o.assumptions for o in ctx.obligations), []),
        "wall_s": round(time.time() - t0, 3),
        "violations": nviol,
    }
    p = os.path.join(VERIF, "evidence", "%s.json" % ctx.prop)
    with open(p, "w") as f:
        json.dump(ev, f, indent=1, default=str)
