"""Symbolic values and hardware-statement nodes of the static Migen elaborator.

Nothing here touches /repo: these are the terms the analyser builds while *reading* the generator
source (ast), never by importing or running it.
"""
from dataclasses import dataclass, field

INFIX = ("&", "|", "^", "+", "-", "*", "//", "/", "%", "<<", ">>", "==", "!=", "<", "<=", ">", ">=", "**",
         "and", "or", "is", "isnot", "in", "notin")


class V:
    pass


MAX_TREE = 400000


class TooBig(Exception):
    """A symbolic term whose written-out form is beyond what the analyser handles (no verdict, never a hang)."""


def tsize(x):
    if isinstance(x, Op):
        return x.tsize()
    if isinstance(x, Comp):
        z = x.__dict__.get("_tsz")
        if z is None:
            z = 1 + tsize(x.elt) + tsize(x.it) + (tsize(x.cond) if x.cond is not None else 0)
            x.__dict__["_tsz"] = z
        return z
    if isinstance(x, ListV):
        return 1 + sum(tsize(y) for y in x.items)
    if isinstance(x, DictV):
        return 1 + sum(tsize(v) for _, v in x.items)
    return 1


def _guard(x):
    z = tsize(x)
    if z > MAX_TREE:
        raise TooBig("a term of %d nodes when written out as a tree (limit %d): the analyser does not print or compare it" % (z, MAX_TREE))


@dataclass(frozen=True)
class Const(V):
    v: object

    def __str__(self):
        return repr(self.v)


@dataclass(frozen=True)
class Sym(V):
    path: str

    def __str__(self):
        return self.path


def _s(a):
    return "" if isinstance(a, Const) and a.v is None else str(a)


@dataclass(frozen=True)
class Op(V):
    op: str
    args: tuple

    def tsize(self):
        """Size of the term written out as a tree (shared sub-terms counted once per use); cached per node."""
        z = self.__dict__.get("_tsz")
        if z is None:
            z = 1
            for x in self.args:
                z += tsize(x)
            object.__setattr__(self, "_tsz", z)
        return z

    def __str__(self):
        o, a = self.op, self.args
        _guard(self)
        if o in INFIX:
            return "(" + (" %s " % o).join(map(str, a)) + ")"
        if o == "~":
            return "~" + str(a[0])
        if o == "neg":
            return "-" + str(a[0])
        if o == "not":
            return "(not %s)" % (a[0],)
        if o == "index":
            return "%s[%s]" % (a[0], a[1])
        if o == "slice":
            return "%s[%s:%s]" % (a[0], _s(a[1]), _s(a[2]))
        if o == "call":
            return "%s(%s)" % (a[0], ", ".join(map(str, a[1:])))
        if o == "kw":
            return "%s=%s" % (a[0].v if isinstance(a[0], Const) else a[0], a[1])
        if o == "phi":
            return "phi(%s ? %s : %s)" % a
        if o == "ifexp":
            return "(%s if %s else %s)" % (a[1], a[0], a[2])
        if o == "attr":
            return "%s.%s" % (a[0], a[1].v if isinstance(a[1], Const) else a[1])
        return "%s(%s)" % (o, ", ".join(map(str, a)))


class Obj(V):
    """A constructed object: Signal / Record / Endpoint / FSM / library primitive / repo class instance."""
    _uid = 0

    def __init__(self, cls, args=(), kwargs=None, name=None, loc=None, kind="prim"):
        Obj._uid += 1
        self.uid = Obj._uid
        self.cls = cls
        self.args = tuple(args)
        self.kwargs = dict(kwargs or {})
        self.name = name
        self.provisional = True      # name may still be improved by a binding closer to the top
        self.name_depth = 99
        self.loc = loc
        self.kind = kind             # 'prim' | 'inst' (repo class instance) | 'param'
        self.attrs = {}
        self.clsv = None             # ClassV for repo instances
        self.path = None             # hierarchical instance path for repo instances
        self.fields = None           # known record field names (list) when derivable
        self.meta = {}               # clock-domain renames, wrappers, fsm data, ...

    def __str__(self):
        return self.name or ("<%s#%d>" % (self.cls, self.uid))

    __repr__ = __str__


class ListV(V):
    def __init__(self, items, tup=False):
        self.items = list(items)
        self.tup = tup

    def __str__(self):
        return "[" + ", ".join(map(str, self.items)) + "]"

    __repr__ = __str__


class DictV(V):
    def __init__(self, items=None):
        self.items = list(items or [])   # list of (k, v) pairs, insertion ordered

    def get(self, k):
        for kk, v in self.items:
            if veq(kk, k):
                return v
        return None

    def set(self, k, v):
        for i, (kk, _) in enumerate(self.items):
            if veq(kk, k):
                self.items[i] = (kk, v)
                return
        self.items.append((k, v))

    def __str__(self):
        return "{" + ", ".join("%s: %s" % kv for kv in self.items) + "}"

    __repr__ = __str__


def veq(a, b):
    if a is b:
        return True
    if isinstance(a, Const) and isinstance(b, Const):
        return type(a.v) == type(b.v) and a.v == b.v or (isinstance(a.v, (int, float)) and isinstance(b.v, (int, float))
                                                         and not isinstance(a.v, bool) and not isinstance(b.v, bool) and a.v == b.v)
    if isinstance(a, (Sym, Op)) and isinstance(b, (Sym, Op)):
        return a == b
    return False


class Func(V):
    def __init__(self, node, env, name, selfobj=None, clsv=None, module=None):
        self.node = node
        self.env = env
        self.name = name
        self.selfobj = selfobj
        self.clsv = clsv
        self.module = module

    def __str__(self):
        return "<func %s>" % self.name

    __repr__ = __str__


class ClassV(V):
    def __init__(self, node, module, env):
        self.node = node
        self.module = module    # ModuleInfo
        self.env = env          # module env
        self.name = node.name
        self.methods = {}
        self.consts = {}        # class-level assignments (name -> ast node)
        self.bases = []         # base expressions (ast)

    def __str__(self):
        return "<class %s>" % self.name

    __repr__ = __str__


class Comp(V):
    """Symbolic comprehension over a non-concrete iterable: [elt for var in it]."""

    def __init__(self, elt, var, it, cond=None):
        self.elt, self.var, self.it, self.cond = elt, var, it, cond

    def __str__(self):
        _guard(self)
        return "[%s for %s in %s%s]" % (self.elt, self.var, self.it, (" if %s" % self.cond) if self.cond is not None else "")

    __repr__ = __str__


# ---------------------------------------------------------------------------------------------------
# Hardware statement nodes (the tree as written); hir.flatten turns them into guarded leaves
# ---------------------------------------------------------------------------------------------------

class HStmt(V):
    loc = None


class Assign(HStmt):
    def __init__(self, target, value, loc):
        self.target, self.value, self.loc = target, value, loc

    def __str__(self):
        return "%s.eq(%s)" % (self.target, self.value)


class IfS(HStmt):
    def __init__(self, branches, loc):
        self.branches = branches   # [(cond | None, [stmts])]
        self.loc = loc

    def __str__(self):
        return "If(%s, ...)" % (self.branches[0][0],)


class CaseS(HStmt):
    def __init__(self, sel, cases, loc):
        self.sel, self.cases, self.loc = sel, cases, loc   # cases: list of (key V, [stmts])

    def __str__(self):
        return "Case(%s, ...)" % (self.sel,)


class NextStateS(HStmt):
    def __init__(self, state, loc):
        self.state, self.loc = state, loc

    def __str__(self):
        return "NextState(%s)" % (self.state,)


class NextValueS(HStmt):
    def __init__(self, target, value, loc):
        self.target, self.value, self.loc = target, value, loc

    def __str__(self):
        return "NextValue(%s, %s)" % (self.target, self.value)


class ConnectS(HStmt):
    def __init__(self, src, dst, keep, omit, loc):
        self.src, self.dst, self.keep, self.omit, self.loc = src, dst, keep, omit, loc

    def __str__(self):
        extra = ""
        if self.keep is not None:
            extra += ", keep=%s" % sorted(self.keep)
        if self.omit is not None:
            extra += ", omit=%s" % sorted(self.omit)
        return "%s.connect(%s%s)" % (self.src, self.dst, extra)


class TimelineS(HStmt):
    def __init__(self, trigger, events, loc):
        self.trigger, self.events, self.loc = trigger, events, loc   # events: [(time V, [stmts])]

    def __str__(self):
        return "timeline(%s, %d events)" % (self.trigger, len(self.events))


class OtherS(HStmt):
    def __init__(self, what, loc):
        self.what, self.loc = what, loc

    def __str__(self):
        return "<%s>" % (self.what,)


def is_none(v):
    return isinstance(v, Const) and v.v is None


def cval(v, default=None):
    return v.v if isinstance(v, Const) else default
