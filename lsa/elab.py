"""Static Migen elaborator: a symbolic partial evaluator over the Python AST of the generator.

It *reads* the repository source (ast) and interprets the generator idioms symbolically: it never
imports, executes or simulates repository code.  Configuration parameters stay symbolic unless the
calling rule supplies a structural valuation (number of phases / masters / banks ...).
"""
import ast
import math

from .values import *
from .hir import Leaf, flatten, FSMInfo, Design, truthy
from .pyfront import Repo, unparse


class Env:
    __slots__ = ("vars", "parent")

    def __init__(self, parent=None):
        self.vars = {}
        self.parent = parent

    def get(self, k):
        e = self
        while e is not None:
            if k in e.vars:
                return e.vars[k]
            e = e.parent
        return None

    def has(self, k):
        e = self
        while e is not None:
            if k in e.vars:
                return True
            e = e.parent
        return False

    def set(self, k, v):
        self.vars[k] = v

    def set_existing(self, k, v):
        e = self
        while e is not None:
            if k in e.vars:
                e.vars[k] = v
                return True
            e = e.parent
        return False


class _Return(Exception):
    def __init__(self, v):
        self.v = v


class Budget(Exception):
    """the symbolic evaluation of a generator ran past its step budget (e.g. a large table computed in plain Python at elaboration time)"""


class _Dead(Exception):
    """raise statement reached: this configuration arm is invalid."""


class _Break(Exception):
    pass


class _Continue(Exception):
    pass


BINOPS = {ast.BitAnd: "&", ast.BitOr: "|", ast.BitXor: "^", ast.Add: "+", ast.Sub: "-", ast.Mult: "*",
          ast.FloorDiv: "//", ast.Div: "/", ast.Mod: "%", ast.LShift: "<<", ast.RShift: ">>", ast.Pow: "**",
          ast.MatMult: "@"}
CMPOPS = {ast.Eq: "==", ast.NotEq: "!=", ast.Lt: "<", ast.LtE: "<=", ast.Gt: ">", ast.GtE: ">=",
          ast.Is: "is", ast.IsNot: "isnot", ast.In: "in", ast.NotIn: "notin"}

# names that build Migen expressions / statements rather than objects
EXPR_CTORS = {"Cat", "Replicate", "Mux", "Constant", "C", "Array"}
# library classes that are modelled as primitive objects
PRIM_HINT = {"Signal", "Record", "Endpoint", "FSM", "SyncFIFO", "AsyncFIFO", "Buffer", "ClockDomainCrossing",
             "Pipeline", "StrideConverter", "Converter", "RoundRobin", "Decoder", "Memory", "Instance",
             "PulseSynchronizer", "MultiReg", "ClockDomain", "CSRStorage", "CSRStatus", "CSR", "CSRField",
             "Interface", "WaitTimer", "Tristate", "TSTriple", "AsyncResetSynchronizer", "BusSynchronizer",
             "AXIBurst2Beat", "Display", "Finish", "LiteXModule", "Module", "PipeValid", "PipeReady"}
WRAPPERS = {"ResetInserter", "CEInserter", "ClockDomainsRenamer", "BufferizeEndpoints", "ModuleTransformer"}
ENDPOINT_FIELDS = ("valid", "ready", "first", "last", "payload", "param")


def _pyop(op, a, b):
    if op == "+": return a + b
    if op == "-": return a - b
    if op == "*": return a * b
    if op == "//": return a // b
    if op == "/": return a / b
    if op == "%": return a % b
    if op == "**": return a ** b
    if op == "<<": return a << b
    if op == ">>": return a >> b
    if op == "&": return a & b
    if op == "|": return a | b
    if op == "^": return a ^ b
    if op == "==": return a == b
    if op == "!=": return a != b
    if op == "<": return a < b
    if op == "<=": return a <= b
    if op == ">": return a > b
    if op == ">=": return a >= b
    if op == "in": return a in b
    if op == "notin": return a not in b
    if op == "is": return a is b or (a == b and type(a) == type(b) and isinstance(a, (int, str, bool, type(None))))
    if op == "isnot": return not (a is b or (a == b and type(a) == type(b) and isinstance(a, (int, str, bool, type(None)))))
    raise ValueError(op)


def log2_int(n, need_pow2=True):
    if n == 0:
        return 0
    r = (n - 1).bit_length()
    if need_pow2 and (1 << r) != n:
        raise ValueError("Not a power of 2")
    return r


def bits_for(n, require_sign_bit=False):
    if n > 0:
        r = log2_int(n + 1, False)
    else:
        require_sign_bit = True
        r = log2_int(-n, False)
    if require_sign_bit:
        r += 1
    return r


def pylist(v):
    """Concrete python list of V from a ListV / const tuple / None."""
    if isinstance(v, ListV):
        return v.items
    if isinstance(v, Const) and isinstance(v.v, (tuple, list)):
        return [Const(x) for x in v.v]
    if isinstance(v, Const) and isinstance(v.v, str):
        return [Const(c) for c in v.v]
    if isinstance(v, DictV):
        return [k for k, _ in v.items]
    return None


def _clone_container(v):
    if isinstance(v, ListV):
        return ListV(list(v.items), getattr(v, "tup", False))
    return v


class Elab:
    MAX_DEPTH = 14
    MAX_SELF_RECURSION = 8
    MAX_STEPS = 3000000      # the largest elaboration of the pinned tree takes about 2*10^5 steps
    MAX_UNROLL = 300

    def __init__(self, repo, overrides=None, hasattrs=None):
        self.repo = repo
        self.overrides = dict(overrides or {})     # Sym path -> V
        self.hasattrs = dict(hasattrs or {})       # "path.attr" -> bool
        self.design = Design()
        self.cls_dyn = {}                          # id(ClassV) -> {attr: value} set at elaboration time
        self.stubs = {}                            # 'Class.method' -> callable(elab, func, args, kwargs) -> V  (replaces the method body)
        self.cfg = []                              # configuration context stack [(key, polarity, term)]
        self.depth = 0                             # inlining depth inside the current instance method
        self.inst_stack = []                       # [Obj]
        self.order = 0
        self.call_counts = {}
        self.file = "?"
        self.modenvs = {}
        self.anon = 0
        self.steps = 0
        self.hints = {}
        self.callname = []
        self.nest = 0
        self.calltrace = []     # (function name, args, kwargs, selfobj) of every inlined call

    # ------------------------------------------------------------------------------------------
    # module environments
    # ------------------------------------------------------------------------------------------
    def modenv(self, modname):
        if modname in self.modenvs:
            return self.modenvs[modname]
        m = self.repo.module(modname)
        if m is None:
            return None
        env = Env()
        self.modenvs[modname] = env
        env.vars["$module"] = m
        for name, node in m.functions.items():
            env.vars[name] = Func(node, env, name, module=m)
        for name, node in m.classes.items():
            cv = ClassV(node, m, env)
            for item in node.body:
                if isinstance(item, ast.FunctionDef):
                    cv.methods[item.name] = item
                elif isinstance(item, ast.Assign):
                    for t in item.targets:
                        if isinstance(t, ast.Name):
                            cv.consts[t.id] = item.value
            cv.bases = node.bases
            env.vars[name] = cv
        saved = self.file
        self.file = m.rel()
        for node in m.assigns:
            try:
                self.st(node, env)
            except Exception as e:  # module-level code we do not understand is simply not bound
                self.design.unknown.append(("modassign:%s" % type(e).__name__, (m.rel(), node.lineno)))
        self.file = saved
        return env

    def lookup_global(self, env, name, seen=None):
        """Resolve a name through intra-repo imports of the module owning `env`."""
        m = env.get("$module")
        if m is None:
            return None
        return self._lookup_in_module(m, name, set())

    def _lookup_in_module(self, m, name, seen):
        if m.name in seen:
            return None
        seen.add(m.name)
        env = self.modenv(m.name)
        if name in env.vars:
            return env.vars[name]
        if name in m.named_imports:
            mod, orig = m.named_imports[name]
            mm = self.repo.module(mod)
            if mm is not None:
                return self._lookup_in_module(mm, orig, seen)
            sub = self.repo.module(mod + "." + orig)
            if sub is not None:
                return Sym("$mod:" + sub.name)
            return None
        for mod in m.star_imports:
            mm = self.repo.module(mod)
            if mm is not None:
                r = self._lookup_in_module(mm, name, seen)
                if r is not None:
                    return r
        return None

    # ------------------------------------------------------------------------------------------
    # helpers
    # ------------------------------------------------------------------------------------------
    def loc(self, node):
        return (self.file, getattr(node, "lineno", 0))

    def unk(self, what, node=None):
        self.design.unknown.append((what, self.loc(node) if node is not None else None))

    def cur_inst(self):
        return self.inst_stack[-1] if self.inst_stack else None

    def prefix(self):
        i = self.cur_inst()
        return (i.path + ".") if (i is not None and i.path) else ""

    def register_name(self, obj, name):
        names = self.design.names
        base = name
        k = 1
        while name in names and names[name] is not obj:
            k += 1
            name = "%s~%d" % (base, k)
        if obj.name is not None and names.get(obj.name) is obj:
            del names[obj.name]
        names[name] = obj
        obj.name = name

    def bind_name(self, v, var):
        if isinstance(v, ListV) and len(v.items) <= 64:
            for i, x in enumerate(v.items):
                if isinstance(x, Obj) and x.name is None:
                    self.bind_name(x, "%s[%d]" % (var, i))
            return
        if isinstance(v, Op) and v.op == "Array" and len(v.args) == 1 and isinstance(v.args[0], ListV):
            return self.bind_name(v.args[0], var)
        if not isinstance(v, Obj) or v.kind == "param":
            return
        if v.name is not None and not v.provisional:
            return
        if v.name is not None and self.depth >= v.name_depth:
            return
        if v.kind == "inst":
            return
        if self.depth == 0:
            nm = self.prefix() + var
            v.provisional = False
        else:
            fn = self.callname[-1] if getattr(self, "callname", None) else "f"
            nm = self.prefix() + "%s.%s" % (fn, var)
        v.name_depth = self.depth
        self.register_name(v, nm)

    def rename_instance(self, inst, newpath):
        old = inst.path
        if old == newpath:
            return
        inst.path = newpath
        if old is None:
            return
        # rename everything that was created under the provisional path
        for o in self.design.objs:
            if o is inst:
                continue
            if o.name and (o.name.startswith(old + ".")):
                self.register_name(o, newpath + o.name[len(old):])
            if o.kind == "inst" and o.path and o.path.startswith(old + "."):
                o.path = newpath + o.path[len(old):]
        for lf in self.design.all_leaves():
            if lf.inst == old:
                lf.inst = newpath
            elif lf.inst.startswith(old + "."):
                lf.inst = newpath + lf.inst[len(old):]
        for f in self.design.fsms.values():
            if f.inst == old:
                f.inst = newpath
            elif f.inst.startswith(old + "."):
                f.inst = newpath + f.inst[len(old):]
        if old in self.design.instances and self.design.instances[old] is inst:
            del self.design.instances[old]
        self.design.instances[newpath] = inst

    # formal parameter names of the library constructors the rules look into (migen / litex); repository classes take theirs from the AST
    LIB_FORMALS = {
        "Signal": ["bits_sign", "name", "variable", "reset", "reset_less", "name_override", "min", "max", "related", "attr"],
        "SyncFIFO": ["layout", "depth", "buffered"],
        "AsyncFIFO": ["layout", "depth", "buffered"],
        "SyncFIFOBuffered": ["width", "depth"],
        "Buffer": ["layout", "pipe_valid", "pipe_ready"],
        "RoundRobin": ["n", "switch_policy"],
        "Converter": ["nbits_from", "nbits_to", "reverse", "report_valid_token_count"],
        "StrideConverter": ["description_from", "description_to", "reverse"],
        "ClockDomainCrossing": ["layout", "cd_from", "cd_to", "depth", "buffered", "with_common_rst"],
        "Memory": ["width", "depth", "init", "name"],
        "WaitTimer": ["t"],
        "Endpoint": ["description_or_layout", "name"],
        "EndpointDescription": ["payload_layout", "param_layout"],
    }

    @staticmethod
    def canon_args(formals, args, kwargs):
        """Bind actual to formal parameters by name: every supplied parameter is in kwargs under its formal name, and args
        holds the contiguous prefix of supplied parameters in formal order - so that f(a, b) and f(x=a, y=b) look alike."""
        if any(isinstance(a, Op) and a.op == "star" for a in args) or "**" in kwargs:
            return args, kwargs
        kw = dict(kwargs)
        for i, a in enumerate(args):
            if i < len(formals):
                kw.setdefault(formals[i], a)
        pos = list(args)
        for nm in formals[len(args):]:
            if nm in kwargs:
                pos.append(kwargs[nm])
            else:
                break
        return pos, kw

    def new_obj(self, cls, args, kwargs, node, kind="prim"):
        if kind == "prim" and cls in self.LIB_FORMALS:
            args, kwargs = self.canon_args(self.LIB_FORMALS[cls], list(args), dict(kwargs))
        o = Obj(cls, args, kwargs, None, self.loc(node) if node is not None else None, kind)
        self.design.objs.append(o)
        o.uid = len(self.design.objs)
        return o

    def ensure_named(self, o):
        if o.name is None:
            self.anon += 1
            self.register_name(o, self.prefix() + "anon_%s%d" % (o.cls, self.anon))
            o.provisional = True
            o.name_depth = 98
        return o.name

    def apply_override(self, v):
        if isinstance(v, Sym) and v.path in self.overrides:
            return self.overrides[v.path]
        return v

    # ------------------------------------------------------------------------------------------
    # attribute access
    # ------------------------------------------------------------------------------------------
    def getattr(self, base, attr, node=None):
        if isinstance(base, Obj):
            if attr in base.attrs:
                return base.attrs[attr]
            if base.kind == "inst":
                f = self.find_method(base.clsv, attr)
                if f is not None and any(isinstance(d, ast.Name) and d.id == "property" for d in f[1].decorator_list):
                    fn = Func(f[1], f[0].env, "%s.%s" % (f[0].name, attr), selfobj=base, clsv=f[0], module=f[0].module)
                    return self.call_func(fn, [], {}, node)
                if f is not None:
                    return Func(f[1], f[0].env, "%s.%s" % (f[0].name, attr), selfobj=base, clsv=f[0], module=f[0].module)
                c = self.find_class_const(base.clsv, attr)
                if c is not None:
                    return c
                if attr in ("comb", "sync", "submodules", "specials", "clock_domains"):
                    return Sym("$sink:" + attr)
                # unknown attribute of a repo instance (inherited from a library base class ...)
                self.ensure_named(base)
                return self.apply_override(Sym(base.name + "." + attr))
            if base.cls == "Signal":
                if attr == "reset":
                    return base.kwargs.get("reset", Const(0))
                if attr == "nbits":
                    return self.width_of(base)
            if base.cls == "FSM" and attr in ("act", "delayed_enter", "ongoing"):
                return Sym("$fsm:" + attr)
            self.ensure_named(base)
            if base.kind == "param":
                return self.apply_override(Sym(base.name + "." + attr))
            r = Sym(base.name + "." + attr)
            return self.apply_override(r)
        if isinstance(base, Sym):
            if base.path.startswith("$sink:"):
                return Sym(base.path + "." + attr)
            if base.path.startswith("$mod:"):
                env = self.modenv(base.path[5:])
                if env is not None and attr in env.vars:
                    return env.vars[attr]
                return Sym(base.path[5:].split(".")[-1] + "." + attr)
            return self.apply_override(Sym(base.path + "." + attr))
        if isinstance(base, Op) and base.op == "select":
            return Op("select", (base.args[0],) + tuple(self.getattr(x, attr) for x in base.args[1:]))
        if isinstance(base, Op) and base.op == "phi":
            c, a, b = base.args
            ra, rb = self.getattr(a, attr), self.getattr(b, attr)
            if ra is rb or veq(ra, rb):
                return ra
            return Op("phi", (c, ra, rb))
        if isinstance(base, ClassV):
            dyn = self.cls_dyn.get(id(base), {})
            if attr in dyn:
                return dyn[attr]
            if attr == "__dict__":
                d = DictV()
                for k in list(base.consts) + list(base.methods) + list(dyn):
                    d.set(Const(k), Const(True))
                return d
            c = self.find_class_const(base, attr)
            if c is not None:
                return c
            f = self.find_method(base, attr)
            if f is not None:
                return Func(f[1], f[0].env, "%s.%s" % (f[0].name, attr), clsv=f[0], module=f[0].module)
            return Sym(base.name + "." + attr)
        if isinstance(base, Const) and isinstance(base.v, str):
            return Op("attr", (base, Const(attr)))
        if isinstance(base, (ListV, DictV)):
            return Op("attr", (base, Const(attr)))
        return Op("attr", (base, Const(attr)))

    def find_method(self, clsv, name, seen=None):
        if clsv is None:
            return None
        if name in clsv.methods:
            return (clsv, clsv.methods[name])
        for b in clsv.bases:
            bv = self.resolve_class(b, clsv)
            if bv is not None and bv is not clsv:
                r = self.find_method(bv, name)
                if r is not None:
                    return r
        return None

    def find_class_const(self, clsv, name):
        if clsv is None:
            return None
        if name in clsv.consts:
            saved = self.file
            self.file = clsv.module.rel()
            try:
                cenv = Env(clsv.env)
                for k, n in clsv.consts.items():
                    if k == name:
                        break
                return self.ev(clsv.consts[name], cenv)
            finally:
                self.file = saved
        for b in clsv.bases:
            bv = self.resolve_class(b, clsv)
            if bv is not None and bv is not clsv:
                r = self.find_class_const(bv, name)
                if r is not None:
                    return r
        return None

    def resolve_class(self, basenode, clsv):
        if isinstance(basenode, ast.Name):
            v = clsv.env.get(basenode.id)
            if v is None:
                v = self.lookup_global(clsv.env, basenode.id)
            return v if isinstance(v, ClassV) else None
        return None

    def class_is_a(self, clsv, names):
        if clsv is None:
            return False
        if clsv.name in names:
            return True
        for b in clsv.bases:
            if isinstance(b, ast.Name) and b.id in names:
                return True
            if isinstance(b, ast.Attribute) and b.attr in names:
                return True
            bv = self.resolve_class(b, clsv)
            if bv is not None and bv is not clsv and self.class_is_a(bv, names):
                return True
        return False

    def width_of(self, v):
        if isinstance(v, Obj) and v.cls == "Signal":
            if v.args:
                return v.args[0]
            if "bits_sign" in v.kwargs:
                return v.kwargs["bits_sign"]
            if "max" in v.kwargs:
                mx = v.kwargs["max"]
                if isinstance(mx, Const) and isinstance(mx.v, int):
                    return Const(max(bits_for(mx.v - 1), 1) if mx.v > 0 else 1)
                return Op("bits_for_max", (mx,))
            if "like" in v.meta:
                return self.width_of(v.meta["like"])
            return Const(1)
        return Op("len", (v,))

    # ------------------------------------------------------------------------------------------
    # expressions
    # ------------------------------------------------------------------------------------------
    def ev(self, n, env):
        self.steps += 1
        if self.steps > self.MAX_STEPS:
            raise Budget("more than %d interpreter steps" % self.MAX_STEPS)
        m = getattr(self, "ev_" + type(n).__name__, None)
        if m is None:
            self.unk("expr:" + type(n).__name__, n)
            return Sym("<?%s>" % type(n).__name__)
        return m(n, env)

    def ev_Constant(self, n, env):
        return Const(n.value)

    def ev_Name(self, n, env):
        if env.has(n.id):
            v = env.get(n.id)
            return v
        v = self.lookup_global(env, n.id)
        if v is not None:
            return v
        if n.id in ("True", "False", "None"):
            return Const({"True": True, "False": False, "None": None}[n.id])
        return self.apply_override(Sym(n.id))

    def ev_Attribute(self, n, env):
        base = self.ev(n.value, env)
        return self.getattr(base, n.attr, n)

    def binop(self, op, a, b):
        if isinstance(a, Const) and isinstance(b, Const):
            try:
                if op in ("&", "|", "^") and isinstance(a.v, bool) and isinstance(b.v, bool):
                    return Const(_pyop(op, a.v, b.v))
                if not (op == "**" and isinstance(b.v, (int, float)) and abs(b.v) > 4096) and \
                   not (op == "<<" and isinstance(b.v, int) and b.v > 4096):
                    if a.v is not None and b.v is not None or op in ("==", "!=", "is", "isnot"):
                        return Const(_pyop(op, a.v, b.v))
            except Exception:
                pass
        # operator methods of repository classes (e.g. Timing.__add__)
        dn = {"+": "__add__", "-": "__sub__", "*": "__mul__"}.get(op)
        if dn and isinstance(a, Obj) and a.kind == "inst" and isinstance(getattr(a, "clsv", None), ClassV):
            fm = self.find_method(a.clsv, dn)
            if fm is not None:
                fn = Func(fm[1], fm[0].env, fm[0].name + "." + dn, selfobj=a, clsv=fm[0], module=fm[0].module)
                return self.call_func(fn, [b], {})
        if op == "+":
            if isinstance(a, ListV) and isinstance(b, ListV):
                return ListV(a.items + b.items, a.tup and b.tup)
            if isinstance(a, ListV) and isinstance(b, Comp) or isinstance(a, Comp) and isinstance(b, ListV):
                return Op("+", (a, b))
        if op == "*":
            if isinstance(a, ListV) and isinstance(b, Const) and isinstance(b.v, int) and b.v <= self.MAX_UNROLL:
                return ListV(a.items * b.v, a.tup)
            if isinstance(b, ListV) and isinstance(a, Const) and isinstance(a.v, int) and a.v <= self.MAX_UNROLL:
                return ListV(b.items * a.v, b.tup)
        if op == "%" and isinstance(a, Const) and isinstance(a.v, str):
            return Op("strfmt", (a, b))
        if op in ("in", "notin"):
            items = pylist(b)
            if items is not None and isinstance(a, Const) and all(isinstance(x, Const) for x in items):
                r = any(veq(a, x) for x in items)
                return Const(r if op == "in" else not r)
            if isinstance(b, DictV) and isinstance(a, Const) and all(isinstance(k, Const) for k, _ in b.items):
                r = b.get(a) is not None
                return Const(r if op == "in" else not r)
        if op in ("is", "isnot", "==", "!="):
            # comparisons against None for things that are certainly not None
            for x, y in ((a, b), (b, a)):
                if is_none(y) and (isinstance(x, (Obj, ListV, DictV, Func, ClassV)) or
                                   (isinstance(x, Op) and x.op not in ("phi", "ifexp", "call", "index", "attr", "elem"))):
                    return Const(op in ("isnot", "!="))
            if op in ("is", "==") and a is b and isinstance(a, Obj):
                return Const(True)
            if op in ("isnot", "!=") and a is b and isinstance(a, Obj):
                return Const(False)
            if op in ("==", "!=") and isinstance(a, ListV) and isinstance(b, ListV):
                if len(a.items) == len(b.items) and all(isinstance(x, Const) for x in a.items + b.items):
                    r = all(veq(x, y) for x, y in zip(a.items, b.items))
                    return Const(r if op == "==" else not r)
        if op in ("==", "!=", "<=", ">=", "<", ">", "is", "isnot") and isinstance(a, (Sym, Op)) and isinstance(b, (Sym, Op)) and a == b:
            return Const(op in ("==", "<=", ">=", "is"))
        if op == "&":
            for x, y in ((a, b), (b, a)):
                if isinstance(x, Const) and (x.v is False or (isinstance(x.v, int) and not isinstance(x.v, bool) and x.v == 0)) and not isinstance(y, (ListV, DictV)):
                    return Const(0)
                if isinstance(x, Const) and x.v is True and not isinstance(y, (ListV, DictV, Const)):
                    return y
        # light algebraic identities that keep terms small
        if op in ("|", "+") and isinstance(a, Const) and a.v == 0 and not isinstance(a.v, bool):
            return b
        if op in ("|", "+", "-", "<<", ">>") and isinstance(b, Const) and b.v == 0 and not isinstance(b.v, bool) and \
                not isinstance(a, (ListV,)):
            return a
        return Op(op, (a, b))

    def ev_BinOp(self, n, env):
        return self.binop(BINOPS[type(n.op)], self.ev(n.left, env), self.ev(n.right, env))

    def ev_UnaryOp(self, n, env):
        v = self.ev(n.operand, env)
        if isinstance(n.op, ast.Not):
            t = self.pytruth(v)
            if t is not None:
                return Const(not t)
            return Op("not", (v,))
        if isinstance(n.op, ast.USub):
            if isinstance(v, Const) and isinstance(v.v, (int, float)):
                return Const(-v.v)
            return Op("neg", (v,))
        if isinstance(n.op, ast.UAdd):
            return v
        if isinstance(v, Const) and isinstance(v.v, int) and not isinstance(v.v, bool):
            return Const(~v.v)
        if isinstance(v, Op) and v.op == "~":
            return v.args[0]
        return Op("~", (v,))

    def pytruth(self, v):
        """Python truthiness of a configuration-time value; None when unknown."""
        if isinstance(v, Const):
            return bool(v.v)
        if isinstance(v, ListV):
            return len(v.items) > 0
        if isinstance(v, DictV):
            return len(v.items) > 0
        if isinstance(v, (Func, ClassV)):
            return True
        if isinstance(v, Obj):
            if v.kind == "param":
                return None
            return True
        return None

    def ev_BoolOp(self, n, env):
        is_and = isinstance(n.op, ast.And)
        vals = []
        for x in n.values:
            v = self.ev(x, env)
            t = self.pytruth(v)
            if t is None:
                vals.append(v)
                continue
            if is_and and not t:
                return v if not vals else Op("and", tuple(vals + [v]))
            if (not is_and) and t:
                return v if not vals else Op("or", tuple(vals + [v]))
            # neutral element: drop unless it is the last
            if x is n.values[-1]:
                vals.append(v)
        if not vals:
            return Const(is_and)
        if len(vals) == 1:
            return vals[0]
        return Op("and" if is_and else "or", tuple(vals))

    def ev_Compare(self, n, env):
        left = self.ev(n.left, env)
        res = None
        for op, c in zip(n.ops, n.comparators):
            r = self.ev(c, env)
            t = self.binop(CMPOPS[type(op)], left, r)
            if res is None:
                res = t
            else:
                ta, tb = self.pytruth(res), self.pytruth(t)
                if ta is False or tb is False:
                    res = Const(False)
                elif ta is True:
                    res = t
                elif tb is True:
                    pass
                else:
                    res = Op("and", (res, t))
            left = r
        return res

    def ev_IfExp(self, n, env):
        c = self.ev(n.test, env)
        t = self.pytruth(c)
        if t is True:
            return self.ev(n.body, env)
        if t is False:
            return self.ev(n.orelse, env)
        a = self.ev(n.body, env)
        b = self.ev(n.orelse, env)
        if veq(a, b):
            return a
        # `1 if c else 0` is c itself as a 0/1 value (and `0 if c else 1` its negation) when c is a comparison
        if isinstance(c, Op) and c.op in ("==", "!=", "<", "<=", ">", ">=", "is", "isnot") and isinstance(a, Const) and isinstance(b, Const) \
                and not isinstance(a.v, bool) and not isinstance(b.v, bool):
            if a.v == 1 and b.v == 0:
                return c
            if a.v == 0 and b.v == 1:
                return Op("==", (c, Const(0)))
        return Op("ifexp", (c, a, b))

    def ev_Tuple(self, n, env):
        r = self.ev_List(n, env)
        r.tup = True
        return r

    def ev_List(self, n, env):
        items = []
        for e in n.elts:
            if isinstance(e, ast.Starred):
                v = self.ev(e.value, env)
                l = pylist(v)
                if l is not None:
                    items.extend(l)
                else:
                    items.append(Op("star", (v,)) if not isinstance(v, Comp) else v)
            else:
                items.append(self.ev(e, env))
        return ListV(items)

    def ev_Set(self, n, env):
        return ListV([self.ev(e, env) for e in n.elts])

    def ev_Dict(self, n, env):
        d = DictV()
        for k, v in zip(n.keys, n.values):
            if k is None:
                vv = self.ev(v, env)
                if isinstance(vv, DictV):
                    for kk, x in vv.items:
                        d.set(kk, x)
                continue
            d.set(self.ev(k, env), self.ev(v, env))
        return d

    def ev_JoinedStr(self, n, env):
        parts = [self.ev(v, env) for v in n.values]
        if all(isinstance(p, Const) for p in parts):
            return Const("".join(str(p.v) for p in parts))
        return Op("fstr", tuple(parts))

    def ev_FormattedValue(self, n, env):
        return self.ev(n.value, env)

    def ev_Lambda(self, n, env):
        fn = ast.FunctionDef(name="<lambda>", args=n.args, body=[ast.Return(value=n.body, lineno=n.lineno)],
                             decorator_list=[], lineno=n.lineno)
        return Func(fn, env, "<lambda>")

    def ev_Starred(self, n, env):
        return Op("star", (self.ev(n.value, env),))

    def ev_NamedExpr(self, n, env):
        v = self.ev(n.value, env)
        env.set(n.target.id, v)
        return v

    def ev_Subscript(self, n, env):
        base = self.ev(n.value, env)
        s = n.slice
        if isinstance(s, ast.Slice):
            lo = self.ev(s.lower, env) if s.lower else Const(None)
            hi = self.ev(s.upper, env) if s.upper else Const(None)
            st = self.ev(s.step, env) if s.step else Const(None)
            return self.do_slice(base, lo, hi, st)
        idx = self.ev(s, env)
        return self.do_index(base, idx)

    def do_slice(self, base, lo, hi, st=Const(None)):
        items = pylist(base) if not isinstance(base, DictV) else None
        if items is not None and isinstance(lo, Const) and isinstance(hi, Const) and isinstance(st, Const):
            try:
                r = items[slice(lo.v, hi.v, st.v)]
                if isinstance(base, Const) and isinstance(base.v, str):
                    return Const(base.v[slice(lo.v, hi.v, st.v)])
                return ListV(r, getattr(base, "tup", False))
            except Exception:
                pass
        if not is_none(st):
            return Op("slice3", (base, lo, hi, st))
        return Op("slice", (base, lo, hi))

    def do_index(self, base, idx):
        if isinstance(base, Op) and base.op == "phi":
            c, a, b = base.args
            return Op("phi", (c, self.do_index(a, idx), self.do_index(b, idx)))
        if isinstance(base, ListV) and isinstance(idx, Const) and isinstance(idx.v, int) and not isinstance(idx.v, bool):
            if -len(base.items) <= idx.v < len(base.items):
                return base.items[idx.v]
        if isinstance(base, Const) and isinstance(base.v, (str, tuple, list)) and isinstance(idx, Const):
            try:
                return Const(base.v[idx.v])
            except Exception:
                pass
        if isinstance(base, DictV):
            v = base.get(idx)
            if v is not None:
                return v
            if isinstance(idx, Const) and all(isinstance(k, Const) for k, _ in base.items):
                raise _Dead()   # KeyError at configuration time
        if isinstance(base, Op) and base.op == "Array" and len(base.args) == 1 and isinstance(base.args[0], ListV):
            if isinstance(idx, Const) and isinstance(idx.v, int):
                try:
                    return base.args[0].items[idx.v]
                except IndexError:
                    pass
            return Op("select", (idx,) + tuple(base.args[0].items))
        return Op("index", (base, idx))

    # comprehensions --------------------------------------------------------------------------------
    def comp(self, n, env, elt_fn, kind):
        out = []
        symbolic = [None]

        def rec(gens, env):
            if not gens:
                return [elt_fn(env)]
            g = gens[0]
            it = self.ev(g.iter, env)
            items = self.iter_items(it)
            res = []
            if items is not None and len(items) <= self.MAX_UNROLL:
                for item in items:
                    e2 = Env(env)
                    self.assign_target(g.target, item, e2, bind=False)
                    ok = True
                    for c in g.ifs:
                        t = self.pytruth(self.ev(c, e2))
                        if t is False:
                            ok = False
                            break
                        if t is None:
                            symbolic[0] = "cond"
                    if ok:
                        res.extend(rec(gens[1:], e2))
                return res
            e2 = Env(env)
            var = unparse(g.target)
            self.bind_loop(g.target, it, e2)
            inner = rec(gens[1:], e2)
            cond = None
            for c in g.ifs:
                cv = self.ev(c, e2)
                cond = cv if cond is None else Op("and", (cond, cv))
            elt = inner[0] if len(inner) == 1 else ListV(inner)
            return [Comp(elt, var, it, cond)]
        r = rec(n.generators, env)
        if len(r) == 1 and isinstance(r[0], Comp) and len(n.generators) >= 1:
            # whole comprehension symbolic at the outer level
            first_it = self.iter_items(self.ev(n.generators[0].iter, env))
            if first_it is None:
                return r[0]
        return ListV(r)

    def ev_ListComp(self, n, env):
        return self.comp(n, env, lambda e: self.ev(n.elt, e), "list")

    def ev_GeneratorExp(self, n, env):
        return self.comp(n, env, lambda e: self.ev(n.elt, e), "gen")

    def ev_SetComp(self, n, env):
        return self.comp(n, env, lambda e: self.ev(n.elt, e), "set")

    def ev_DictComp(self, n, env):
        r = self.comp(n, env, lambda e: ListV([self.ev(n.key, e), self.ev(n.value, e)], True), "dict")
        if isinstance(r, ListV) and all(isinstance(x, ListV) and len(x.items) == 2 for x in r.items):
            d = DictV()
            for x in r.items:
                d.set(x.items[0], x.items[1])
            return d
        return r

    def iter_items(self, it):
        """Concrete list of loop items, or None if the iterable is symbolic."""
        if isinstance(it, ListV):
            return it.items
        if isinstance(it, DictV):
            return [k for k, _ in it.items]
        if isinstance(it, Const) and isinstance(it.v, (tuple, list, str)):
            return [Const(x) for x in it.v]
        if isinstance(it, Op) and it.op == "Array" and len(it.args) == 1 and isinstance(it.args[0], ListV):
            return it.args[0].items
        return None

    def bind_loop(self, target, it, env):
        """Bind a loop target to a symbolic element of a non-concrete iterable."""
        if isinstance(it, Op) and it.op == "call" and isinstance(it.args[0], Sym):
            f = it.args[0].path
            if f == "enumerate" and isinstance(target, ast.Tuple) and len(target.elts) == 2:
                idx = Sym("$" + unparse(target.elts[0]))
                env.set(unparse(target.elts[0]), idx)
                self.bind_elem(target.elts[1], it.args[1], idx, env)
                return
            if f == "zip" and isinstance(target, ast.Tuple) and len(target.elts) == len(it.args) - 1:
                idx = Sym("$z%d" % target.lineno)
                for t, a in zip(target.elts, it.args[1:]):
                    self.bind_elem(t, a, idx, env)
                return
            if f == "range" and isinstance(target, ast.Name):
                env.set(target.id, Sym("$" + target.id))
                return
        self.bind_elem(target, it, Sym("$" + unparse(target).replace(" ", "")), env)

    def bind_elem(self, target, seq, idx, env):
        if isinstance(target, ast.Name):
            if isinstance(seq, Comp):
                env.set(target.id, Op("elem", (seq, idx)))
            else:
                env.set(target.id, Op("index", (seq, idx)))
        elif isinstance(target, (ast.Tuple, ast.List)):
            for i, t in enumerate(target.elts):
                self.bind_elem(t, Op("item%d" % i, (seq,)), idx, env)

    # ------------------------------------------------------------------------------------------
    # calls
    # ------------------------------------------------------------------------------------------
    def eval_args(self, n, env):
        args = []
        for a in n.args:
            if isinstance(a, ast.Starred):
                v = self.ev(a.value, env)
                l = pylist(v)
                if l is not None:
                    args.extend(l)
                elif isinstance(v, Comp):
                    args.append(v)
                else:
                    args.append(Op("star", (v,)))
            else:
                args.append(self.ev(a, env))
        kwargs = {}
        for k in n.keywords:
            if k.arg is None:
                v = self.ev(k.value, env)
                if isinstance(v, DictV):
                    for kk, x in v.items:
                        if isinstance(kk, Const):
                            kwargs[kk.v] = x
                else:
                    kwargs["**"] = v
            else:
                kwargs[k.arg] = self.ev(k.value, env)
        return args, kwargs

    def stmts_of(self, vals):
        out = []

        def fl(v):
            if isinstance(v, ListV):
                for x in v.items:
                    fl(x)
            elif is_none(v):
                pass
            else:
                out.append(v)
        for v in vals:
            fl(v)
        return out

    def ev_Call(self, n, env):
        f = n.func
        # ---- method-call forms ----------------------------------------------------------------
        if isinstance(f, ast.Attribute):
            attr = f.attr
            if attr == "eq" and len(n.args) == 1 and not n.keywords:
                return Assign(self.ev(f.value, env), self.ev(n.args[0], env), self.loc(n))
            base = self.ev(f.value, env)
            if attr in ("Elif", "Else") and isinstance(base, IfS):
                args, _ = self.eval_args(n, env)
                if attr == "Else":
                    return IfS(base.branches + [(None, self.stmts_of(args))], base.loc)
                return IfS(base.branches + [(args[0], self.stmts_of(args[1:]))], base.loc)
            args, kwargs = self.eval_args(n, env)
            return self.call_method(base, attr, args, kwargs, n, env)
        fv = self.ev(f, env)
        args, kwargs = self.eval_args(n, env)
        # f(*phi(c, [..], [..]))  ->  phi(c, f(*[..]), f(*[..]))   for pure constructors only
        if isinstance(f, ast.Name) and f.id in ("Cat", "max", "min", "sum", "len", "reduce"):
            for i, a in enumerate(args):
                if isinstance(a, Op) and a.op == "star" and isinstance(a.args[0], Op) and a.args[0].op == "phi":
                    c, x, y = a.args[0].args
                    lx, ly = pylist(x), pylist(y)
                    if lx is not None and ly is not None:
                        r1 = self.call_value(fv, args[:i] + list(lx) + args[i + 1:], kwargs, n, env)
                        r2 = self.call_value(fv, args[:i] + list(ly) + args[i + 1:], kwargs, n, env)
                        return r1 if veq(r1, r2) else Op("phi", (c, r1, r2))
        return self.call_value(fv, args, kwargs, n, env)

    def call_method(self, base, attr, args, kwargs, n, env):
        # containers ---------------------------------------------------------------------------
        if isinstance(base, ListV):
            if attr == "append" and len(args) == 1:
                base.items.append(args[0]); return Const(None)
            if attr == "extend" and len(args) == 1:
                l = pylist(args[0])
                if l is not None:
                    base.items.extend(l)
                else:
                    base.items.append(args[0] if isinstance(args[0], Comp) else Op("star", (args[0],)))
                return Const(None)
            if attr == "insert" and len(args) == 2 and isinstance(args[0], Const):
                base.items.insert(args[0].v, args[1]); return Const(None)
            if attr == "index" and len(args) == 1:
                for i, x in enumerate(base.items):
                    if veq(x, args[0]):
                        return Const(i)
            if attr == "pop":
                if base.items:
                    return base.items.pop(args[0].v if args and isinstance(args[0], Const) else -1)
            if attr == "copy":
                return ListV(base.items, base.tup)
            if attr == "count" and len(args) == 1:
                return Const(sum(1 for x in base.items if veq(x, args[0])))
        if isinstance(base, DictV):
            if attr == "items":
                return ListV([ListV([k, v], True) for k, v in base.items])
            if attr == "keys":
                return ListV([k for k, _ in base.items])
            if attr == "values":
                return ListV([v for _, v in base.items])
            if attr == "get":
                v = base.get(args[0])
                if v is not None:
                    return v
                if isinstance(args[0], Const) and all(isinstance(k, Const) for k, _ in base.items):
                    return args[1] if len(args) > 1 else Const(None)
            if attr == "update" and args and isinstance(args[0], DictV):
                for k, v in args[0].items:
                    base.set(k, v)
                return Const(None)
            if attr == "setdefault" and len(args) == 2:
                v = base.get(args[0])
                if v is None:
                    base.set(args[0], args[1]); return args[1]
                return v
            if attr == "copy":
                return DictV(base.items)
            if attr == "pop" and args:
                v = base.get(args[0])
                if v is not None:
                    base.items = [(k, x) for k, x in base.items if not veq(k, args[0])]
                    return v
                if len(args) > 1:
                    return args[1]
        if isinstance(base, Const) and isinstance(base.v, str):
            if all(isinstance(a, Const) for a in args) and not kwargs:
                try:
                    r = getattr(base.v, attr)(*[a.v for a in args])
                    if isinstance(r, (str, int, bool)):
                        return Const(r)
                    if isinstance(r, (list, tuple)):
                        return ListV([Const(x) for x in r])
                except Exception:
                    pass
            if attr == "join" and len(args) == 1:
                l = pylist(args[0])
                if l is not None and all(isinstance(x, Const) for x in l):
                    return Const(base.v.join(str(x.v) for x in l))
        # Migen statement / record methods -------------------------------------------------------
        if attr == "connect":
            keep = kwargs.get("keep")
            omit = kwargs.get("omit")

            def names(v):
                if v is None:
                    return None
                l = pylist(v)
                if l is None:
                    return {str(v)}
                return {x.v if isinstance(x, Const) else str(x) for x in l}
            if isinstance(base, Obj) and base.kind == "inst":
                fm = self.find_method(base.clsv, "connect")
                if fm is not None:
                    return self.call_func(Func(fm[1], fm[0].env, fm[0].name + ".connect", selfobj=base, clsv=fm[0], module=fm[0].module), args, kwargs, n)
            if len(args) >= 1:
                if len(args) > 1:
                    return ListV([ConnectS(base, a, names(keep), names(omit), self.loc(n)) for a in args])
                return ConnectS(base, args[0], names(keep), names(omit), self.loc(n))
        if isinstance(base, Obj) and base.cls == "FSM":
            info = self.design.fsms.get(base)
            if attr == "act" and info is not None and args:
                st = args[0].v if isinstance(args[0], Const) else str(args[0])
                leaves = []
                flatten(self.stmts_of(args[1:]), [], leaves, "fsm")
                if st not in info.acts:
                    info.acts[st] = []
                    info.states.append(st)
                    info.cfg[st] = tuple(self.cfg)
                    if info.reset_state is None:
                        info.reset_state = st
                for lf in leaves:
                    self.stamp(lf)
                    lf.fsm = base
                    lf.state = st
                    info.acts[st].append(lf)
                return Const(None)
            if attr == "delayed_enter" and info is not None and len(args) == 3:
                info.delayed.append((cval(args[0], str(args[0])), cval(args[1], str(args[1])), args[2], tuple(self.cfg), self.loc(n)))
                return Const(None)
            if attr == "ongoing" and args:
                return Op("ongoing", (base, args[0]))
            if attr in ("finalize",):
                return Const(None)
            if attr in ("before_entering", "after_entering", "before_leaving", "after_leaving") and args:
                return Op(attr, (base, args[0]))
        if isinstance(base, Obj) and base.cls == "Pattern" and attr in ("sub", "match") and "$pattern" in base.attrs:
            import re as _re
            pat = base.attrs["$pattern"].v
            if attr == "match" and args and isinstance(args[0], Const):
                mm = _re.match(pat, args[0].v)
                if mm is None:
                    return Const(None)
                o = self.new_obj("Match", (), {}, n)
                o.attrs["$groups"] = ListV([Const(g) for g in mm.groups()], True)
                o.attrs["$group0"] = Const(mm.group(0))
                return o
            if attr == "sub" and len(args) == 2 and isinstance(args[1], Const) and isinstance(args[1].v, str):
                repl = args[0]
                if isinstance(repl, Const):
                    return Const(_re.sub(pat, repl.v, args[1].v))
                if isinstance(repl, Func):
                    def cb(mm):
                        o = self.new_obj("Match", (), {}, n)
                        o.attrs["$groups"] = ListV([Const(g) for g in mm.groups()], True)
                        o.attrs["$group0"] = Const(mm.group(0))
                        r = self.call_func(repl, [o], {}, n)
                        if not (isinstance(r, Const) and isinstance(r.v, str)):
                            raise ValueError("non-constant regex replacement")
                        return r.v
                    try:
                        return Const(_re.sub(pat, cb, args[1].v))
                    except ValueError:
                        pass
        if isinstance(base, Obj) and base.cls == "Match":
            if attr == "groups":
                return base.attrs["$groups"]
            if attr == "group":
                if not args or (isinstance(args[0], Const) and args[0].v == 0):
                    return base.attrs["$group0"]
                if isinstance(args[0], Const) and isinstance(args[0].v, int):
                    return base.attrs["$groups"].items[args[0].v - 1]
        # methods of repo instances / classes ------------------------------------------------------
        if isinstance(base, Obj) and base.kind == "inst":
            if attr in base.attrs and isinstance(base.attrs[attr], Func):
                return self.call_func(base.attrs[attr], args, kwargs, n)
            fm = self.find_method(base.clsv, attr)
            if fm is not None:
                fn = Func(fm[1], fm[0].env, fm[0].name + "." + attr, selfobj=base, clsv=fm[0], module=fm[0].module)
                return self.call_func(fn, args, kwargs, n)
            if attr == "add_module" and "module" in kwargs:
                self.add_submodule(base, cval(kwargs.get("name")), kwargs["module"]); return Const(None)
        if isinstance(base, ClassV):
            fm = self.find_method(base, attr)
            if fm is not None:
                # Base.__init__(self, ...) style
                if args and isinstance(args[0], Obj) and fm[1].args.args and fm[1].args.args[0].arg == "self":
                    fn = Func(fm[1], fm[0].env, fm[0].name + "." + attr, selfobj=args[0], clsv=fm[0], module=fm[0].module)
                    return self.call_func(fn, args[1:], kwargs, n)
                fn = Func(fm[1], fm[0].env, fm[0].name + "." + attr, clsv=fm[0], module=fm[0].module)
                return self.call_func(fn, args, kwargs, n)
        if isinstance(base, Op) and base.op == "super":
            obj = base.args[0]
            clsv = base.args[1]
            if isinstance(obj, Obj) and isinstance(clsv, ClassV):
                for b in clsv.bases:
                    bv = self.resolve_class(b, clsv)
                    fm = self.find_method(bv, attr) if bv is not None else None
                    if fm is not None:
                        fn = Func(fm[1], fm[0].env, fm[0].name + "." + attr, selfobj=obj, clsv=fm[0], module=fm[0].module)
                        return self.call_func(fn, args, kwargs, n)
            return Const(None)
        if isinstance(base, Op) and base.op == "phi":
            c, a, b = base.args
            ra = self.call_method(a, attr, args, kwargs, n, env)
            rb = self.call_method(b, attr, args, kwargs, n, env)
            return ra if veq(ra, rb) else Op("phi", (c, ra, rb))
        # name.Attr(...) where Attr is a class / function reachable through a module alias ---------
        fv = self.getattr(base, attr, n)
        if isinstance(fv, (Func, ClassV)):
            return self.call_value(fv, args, kwargs, n, env)
        if isinstance(fv, Sym) and fv.path in ("Signal.like", "Record.like"):
            return self.call_value(fv, args, kwargs, n, env)
        if isinstance(fv, Sym):
            last = attr
            if isinstance(base, Sym) and not base.path.startswith("$") and (last[:1].isupper() or last in PRIM_HINT) \
                    and last not in EXPR_CTORS and base.path.split(".")[0] not in self.known_value_roots(env):
                return self.make_prim(last, args, kwargs, n)
            if isinstance(base, Sym) and base.path == "re" and attr in ("match", "fullmatch", "search") and len(args) >= 2 \
                    and all(isinstance(a, Const) and isinstance(a.v, str) for a in args[:2]):
                import re as _re
                mm = getattr(_re, attr)(args[0].v, args[1].v)
                if mm is None:
                    return Const(None)
                o = self.new_obj("Match", (), {}, n)
                o.attrs["$groups"] = ListV([Const(g) for g in mm.groups()], True)
                o.attrs["$group0"] = Const(mm.group(0))
                return o
            if isinstance(base, Sym) and base.path == "re" and attr == "compile" and args and isinstance(args[0], Const):
                o = self.new_obj("Pattern", (), {}, n)
                o.attrs["$pattern"] = args[0]
                return o
            if isinstance(base, Sym) and base.path in ("math", "np", "numpy"):
                return self.call_builtin(attr, args, kwargs, n, env, qual=base.path)
            if isinstance(base, Sym) and base.path in ("roundrobin", "stream", "wishbone", "axi", "csr", "dfi"):
                return self.make_prim(last, args, kwargs, n)
        if attr in ("format",) and isinstance(base, Const):
            return Op("strfmt", (base,) + tuple(args))
        if isinstance(base, Obj) and attr == "like" and base.cls in ("Signal", "Record"):
            pass
        kws = tuple(Op("kw", (Const(k), v)) for k, v in kwargs.items())
        return Op("call", (fv,) + tuple(args) + kws)

    def known_value_roots(self, env):
        return ()

    def call_value(self, fv, args, kwargs, n, env):
        if isinstance(fv, Func):
            return self.call_func(fv, args, kwargs, n)
        if isinstance(fv, ClassV):
            return self.instantiate(fv, args, kwargs, n)
        if isinstance(fv, Sym):
            name = fv.path
            last = name.split(".")[-1]
            if name == "If":
                if not args:
                    return Const(None)
                return IfS([(args[0], self.stmts_of(args[1:]))], self.loc(n))
            if name == "Case" and len(args) == 2:
                cases = []
                if isinstance(args[1], DictV):
                    for k, v in args[1].items:
                        cases.append((k, self.stmts_of([v])))
                else:
                    cases.append((Sym("<?cases>"), [OtherS(str(args[1]), self.loc(n))]))
                return CaseS(args[0], cases, self.loc(n))
            if name == "NextState" and args:
                return NextStateS(args[0], self.loc(n))
            if name == "NextValue" and len(args) == 2:
                return NextValueS(args[0], args[1], self.loc(n))
            if name == "timeline" and len(args) == 2:
                evs = []
                l = pylist(args[1])
                if l is not None:
                    for e in l:
                        ee = pylist(e)
                        if ee is not None and len(ee) == 2:
                            evs.append((ee[0], self.stmts_of([ee[1]])))
                return TimelineS(args[0], evs, self.loc(n))
            if name in ("Signal.like", "Record.like"):
                o = self.new_obj(name.split(".")[0], (), kwargs, n)
                if n is not None and id(n) in self.hints:
                    self.bind_name(o, self.hints.pop(id(n)))
                o.meta["like"] = args[0] if args else None
                if args and isinstance(args[0], Obj):
                    o.fields = args[0].fields
                return o
            if last in EXPR_CTORS:
                if last == "Array" and len(args) == 1:
                    l = pylist(args[0])
                    if l is not None:
                        return Op("Array", (ListV(l),))
                    return Op("Array", (args[0],))
                if last == "Cat":
                    flat = []
                    for a in args:
                        l = pylist(a) if isinstance(a, ListV) else None
                        if l is not None:
                            flat.extend(l)
                        else:
                            flat.append(a)
                    return Op("Cat", tuple(flat))
                return Op(last, tuple(args))
            if last in WRAPPERS:
                o = self.new_obj(last, args, kwargs, n)
                return o
            r = self.call_builtin(name, args, kwargs, n, env)
            if r is not None:
                return r
            if (last[:1].isupper() and last not in ("DIR_M_TO_S",)) or last in PRIM_HINT:
                return self.make_prim(last, args, kwargs, n)
            kws = tuple(Op("kw", (Const(k), v)) for k, v in kwargs.items())
            return Op("call", (fv,) + tuple(args) + kws)
        if isinstance(fv, Op) and fv.op == "namedtuple":
            o = self.new_obj(fv.args[0].v, args, kwargs, n)
            fields = [x.v for x in fv.args[1].items]
            for i, fnm in enumerate(fields):
                if i < len(args):
                    o.attrs[fnm] = args[i]
                elif fnm in kwargs:
                    o.attrs[fnm] = kwargs[fnm]
            o.fields = fields
            return o
        if isinstance(fv, Obj) and fv.cls in WRAPPERS and len(args) == 1:
            target = args[0]
            if isinstance(target, Obj):
                target.meta.setdefault("wrappers", []).append((fv.cls, fv.args, fv.kwargs))
            return target
        if isinstance(fv, Op) and fv.op == "phi":
            c, a, b = fv.args
            return Op("phi", (c, self.call_value(a, args, kwargs, n, env), self.call_value(b, args, kwargs, n, env)))
        kws = tuple(Op("kw", (Const(k), v)) for k, v in kwargs.items())
        return Op("call", (fv,) + tuple(args) + kws)

    def make_prim(self, cls, args, kwargs, n):
        o = self.new_obj(cls, args, kwargs, n)
        if n is not None and id(n) in self.hints:
            self.bind_name(o, self.hints.pop(id(n)))
        if cls == "FSM":
            info = FSMInfo(o)
            inst = self.cur_inst()
            info.inst = inst.path if inst is not None and inst.path else ""
            rs = kwargs.get("reset_state")
            if rs is not None and isinstance(rs, Const):
                info.reset_state = rs.v
            self.design.fsms[o] = info
        if cls == "Record" and args:
            o.fields = self.layout_fields(args[0])
        if cls == "Endpoint" and args:
            fl = self.layout_fields(args[0])
            o.fields = (list(fl) + ["valid", "ready", "first", "last"]) if fl is not None else None
        if cls == "Signal" and "name" in kwargs and isinstance(kwargs["name"], Const) and self.depth == 0:
            pass
        return o

    def layout_fields(self, layout):
        l = pylist(layout)
        if l is None:
            return None
        names = []
        for e in l:
            ee = pylist(e)
            if not ee or not isinstance(ee[0], Const):
                return None
            names.append(ee[0].v)
        return names

    # ------------------------------------------------------------------------------------------
    # builtins (pure, configuration-time)
    # ------------------------------------------------------------------------------------------
    def call_builtin(self, name, args, kwargs, n, env, qual=None):
        a = args
        allc = all(isinstance(x, Const) for x in a)
        num = allc and all(isinstance(x.v, (int, float)) and not isinstance(x.v, bool) or isinstance(x.v, bool) for x in a)
        try:
            if name == "len" and len(a) == 1:
                l = pylist(a[0])
                if l is not None and not any(isinstance(x, (Comp,)) or (isinstance(x, Op) and x.op == "star") for x in l):
                    return Const(len(l))
                if isinstance(a[0], Obj) and a[0].cls == "Signal":
                    return self.width_of(a[0])
                r = Op("len", (a[0],))
                if self.overrides and tsize(r) < 200 and str(r) in self.overrides:
                    return self.overrides[str(r)]
                return r
            if name == "range":
                if allc and num and 1 <= len(a) <= 3:
                    r = range(*[x.v for x in a])
                    if len(r) <= self.MAX_UNROLL:
                        return ListV([Const(i) for i in r])
                return Op("call", (Sym("range"),) + tuple(a))
            if name == "enumerate" and a:
                l = self.iter_items(a[0])
                if l is not None:
                    start = kwargs.get("start", a[1] if len(a) > 1 else Const(0))
                    s0 = start.v if isinstance(start, Const) else 0
                    return ListV([ListV([Const(i + s0), x], True) for i, x in enumerate(l)])
                return Op("call", (Sym("enumerate"),) + tuple(a))
            if name == "zip":
                ls = [self.iter_items(x) for x in a]
                if all(l is not None for l in ls):
                    return ListV([ListV(list(t), True) for t in zip(*ls)])
                return Op("call", (Sym("zip"),) + tuple(a))
            if name in ("list", "tuple", "set", "sorted", "reversed") and len(a) <= 1:
                if not a:
                    return ListV([])
                l = self.iter_items(a[0])
                if l is not None:
                    l = list(l)
                    if name == "reversed":
                        l.reverse()
                    if name == "sorted" and all(isinstance(x, Const) for x in l):
                        l.sort(key=lambda x: x.v, reverse=bool(cval(kwargs.get("reverse"), False)))
                    return ListV(l, name == "tuple")
                if isinstance(a[0], Comp):
                    return a[0]
                return Op("call", (Sym(name),) + tuple(a))
            if name in ("dict", "OrderedDict"):
                if not a:
                    d = DictV()
                    for k, v in kwargs.items():
                        d.set(Const(k), v)
                    return d
                if isinstance(a[0], DictV):
                    return DictV(a[0].items)
                l = self.iter_items(a[0])
                if l is not None and all(isinstance(x, ListV) and len(x.items) == 2 for x in l):
                    d = DictV()
                    for x in l:
                        d.set(x.items[0], x.items[1])
                    return d
            if name == "str" and len(a) == 1 and allc:
                return Const(str(a[0].v))
            if name == "int" and len(a) >= 1:
                if allc:
                    return Const(int(*[x.v for x in a]))
                return Op("int", tuple(a))
            if name == "float" and len(a) == 1:
                if allc:
                    return Const(float(a[0].v))
                return a[0]
            if name == "bool" and len(a) == 1:
                t = self.pytruth(a[0])
                return Const(t) if t is not None else Op("bool", tuple(a))
            if name == "abs" and len(a) == 1 and num:
                return Const(abs(a[0].v))
            if name == "round" and a:
                if num:
                    return Const(round(*[x.v for x in a]))
                return Op("round", tuple(a))
            if name in ("max", "min"):
                vals = a
                if len(a) == 1:
                    l = self.iter_items(a[0])
                    if l is not None:
                        vals = l
                if vals and all(isinstance(x, Const) and isinstance(x.v, (int, float)) for x in vals):
                    return Const(max(x.v for x in vals) if name == "max" else min(x.v for x in vals))
                return Op(name, tuple(vals))
            if name == "sum" and len(a) >= 1:
                l = self.iter_items(a[0])
                if l is not None:
                    acc = a[1] if len(a) > 1 else Const(0)
                    for x in l:
                        acc = self.binop("+", acc, x)
                    return acc
                return Op("sum", tuple(a))
            if name in ("any", "all") and len(a) == 1:
                l = self.iter_items(a[0])
                if l is not None:
                    ts = [self.pytruth(x) for x in l]
                    if all(t is not None for t in ts):
                        return Const(any(ts) if name == "any" else all(ts))
                return Op(name, tuple(a))
            if name == "reduce" and len(a) >= 2:
                l = self.iter_items(a[1])
                fn = a[0]
                if l is not None and l:
                    opn = {"or_": "|", "and_": "&", "add": "+", "xor": "^", "mul": "*"}.get(fn.path if isinstance(fn, Sym) else None)
                    acc = l[0] if len(a) < 3 else a[2]
                    rest = l[1:] if len(a) < 3 else l
                    for x in rest:
                        if opn:
                            acc = self.binop(opn, acc, x)
                        elif isinstance(fn, Func):
                            acc = self.call_func(fn, [acc, x], {}, n)
                        else:
                            acc = Op("call", (fn, acc, x))
                    return acc
                return Op("reduce", tuple(a))
            if name == "log2_int" and a:
                if allc and isinstance(a[0].v, int):
                    np2 = a[1].v if len(a) > 1 else cval(kwargs.get("need_pow2"), True)
                    return Const(log2_int(a[0].v, np2))
                return Op("log2_int", (a[0],))
            if name == "bits_for" and a:
                if allc and isinstance(a[0].v, int):
                    return Const(bits_for(*[x.v for x in a]))
                return Op("bits_for", (a[0],))
            if name in ("ceil", "floor", "log2", "sqrt", "log") and (qual in ("math", "np", "numpy") or True) and len(a) >= 1:
                if num:
                    return Const(getattr(math, name)(*[x.v for x in a]))
                return Op(name, tuple(a))
            if name == "isinstance" and len(a) == 2:
                return self.do_isinstance(a[0], a[1])
            if name == "hasattr" and len(a) == 2 and isinstance(a[1], Const):
                return self.do_hasattr(a[0], a[1].v)
            if name == "getattr" and len(a) >= 2:
                if isinstance(a[1], Const) and isinstance(a[1].v, str):
                    if len(a) == 3:
                        h = self.do_hasattr(a[0], a[1].v)
                        if isinstance(h, Const) and h.v is False:
                            return a[2]
                    return self.getattr(a[0], a[1].v)
                return Op("getattr", tuple(a))
            if name == "setattr" and len(a) == 3 and isinstance(a[1], Const):
                self.setattr(a[0], a[1].v, a[2])
                return Const(None)
            if name == "namedtuple" and len(a) == 2 and isinstance(a[0], Const):
                fl = pylist(a[1])
                if fl is not None and all(isinstance(x, Const) for x in fl):
                    return Op("namedtuple", (a[0], ListV(fl)))
            if name == "map" and len(a) == 2:
                l = self.iter_items(a[1])
                if l is not None:
                    return ListV([self.call_value(a[0], [x], {}, n, env) for x in l])
                return Op("map", tuple(a))
            if name == "locals":
                d = DictV()
                for k, v in env.vars.items():
                    if not k.startswith("$"):
                        d.set(Const(k), v)
                return d
            if name == "super":
                return Op("super", (env.get("self"), env.get("$class")))
            if name == "print":
                return Const(None)
            if name == "type" and len(a) == 1:
                if isinstance(a[0], Obj) and isinstance(getattr(a[0], "clsv", None), ClassV):
                    return a[0].clsv
                return Op("type", tuple(a))
            if name == "id" or name == "repr":
                return Op(name, tuple(a))
            if name == "divmod" and num and len(a) == 2:
                q, r = divmod(a[0].v, a[1].v)
                return ListV([Const(q), Const(r)], True)
            if name == "pow" and num:
                return Const(pow(*[x.v for x in a]))
            if name == "ord" and allc:
                return Const(ord(a[0].v))
            if name == "chr" and allc:
                return Const(chr(a[0].v))
            if name == "bin" and allc:
                return Const(bin(a[0].v))
            if name == "hex" and allc:
                return Const(hex(a[0].v))
        except _Dead:
            raise
        except Exception:
            pass
        return None

    def do_isinstance(self, v, cls):
        names = []
        for c in (pylist(cls) or [cls]):
            names.append(c.path.split(".")[-1] if isinstance(c, Sym) else (c.name if isinstance(c, ClassV) else str(c)))
        if isinstance(v, Const):
            pyt = {"int": int, "str": str, "float": float, "bool": bool, "list": list, "tuple": tuple}
            if all(nm in pyt or nm[:1].isupper() for nm in names):
                return Const(any(nm in pyt and isinstance(v.v, pyt[nm]) and not (nm == "int" and False) for nm in names))
        if isinstance(v, ListV):
            return Const(any(nm in ("list", "tuple", "Iterable") for nm in names))
        if isinstance(v, DictV):
            return Const(any(nm in ("dict", "OrderedDict") for nm in names))
        if isinstance(v, Obj) and v.kind != "param":
            if v.kind == "inst":
                return Const(self.class_is_a(v.clsv, set(names)))
            if v.cls == "Signal":
                return Const(any(nm in ("Signal", "_Value", "Value") for nm in names))
            return Const(v.cls in names)
        if isinstance(v, Op) and v.op in ("&", "|", "^", "~", "Cat", "Replicate", "slice", "==", "!=", "+", "-"):
            if set(names) <= {"int", "str", "list", "tuple", "dict", "float", "bool"}:
                return Const(False)
        key = "isinstance:%s:%s" % (v, ",".join(names))
        if key in self.hasattrs:
            return Const(self.hasattrs[key])
        return Op("isinstance", (v, Const(",".join(names))))

    def do_hasattr(self, v, attr):
        key = "%s.%s" % (v, attr)
        if key in self.hasattrs:
            return Const(self.hasattrs[key])
        if isinstance(v, Obj):
            if attr in v.attrs:
                return Const(True)
            if v.kind == "inst":
                if self.find_method(v.clsv, attr) or self.find_class_const(v.clsv, attr) is not None:
                    return Const(True)
                if not self.class_is_a(v.clsv, {"Module", "LiteXModule", "Record", "AutoCSR"}):
                    return Const(False)
                if self.class_is_a(v.clsv, {"Record"}):
                    return Op("hasattr", (v, Const(attr)))
                return Const(False)
            if v.fields is not None:
                return Const(attr in v.fields)
            if v.cls == "Endpoint" and attr in ENDPOINT_FIELDS:
                return Const(True)
        return Op("hasattr", (v, Const(attr)))

    def setattr(self, base, attr, v):
        if isinstance(base, Obj):
            base.attrs[attr] = v
            if base.kind == "inst" and base is self.cur_inst():
                self.bind_name(v, attr)
                if isinstance(v, Obj) and v.kind == "inst" and self.class_is_a(base.clsv, {"LiteXModule"}):
                    self.add_submodule(base, attr, v)

    # ------------------------------------------------------------------------------------------
    # function inlining and class instantiation
    # ------------------------------------------------------------------------------------------
    def bind_params(self, f, args, kwargs, fenv, defenv):
        a = f.node.args
        params = [p.arg for p in a.posonlyargs + a.args]
        if f.selfobj is not None and params and params[0] in ("self", "cls"):
            fenv.set(params[0], f.selfobj)
            params = params[1:]
        defaults = a.defaults
        dmap = {}
        allp = [p.arg for p in a.posonlyargs + a.args]
        for p, d in zip(allp[len(allp) - len(defaults):], defaults):
            dmap[p] = d
        used = 0
        for p in params:
            if used < len(args) and not (isinstance(args[used], Op) and args[used].op == "star"):
                fenv.set(p, args[used]); used += 1
            elif p in kwargs:
                fenv.set(p, kwargs[p])
            elif p in dmap:
                fenv.set(p, self.ev(dmap[p], defenv))
            else:
                fenv.set(p, Sym(p))
        if a.vararg:
            fenv.set(a.vararg.arg, ListV(args[used:], True))
        for p, d in zip(a.kwonlyargs, a.kw_defaults):
            if p.arg in kwargs:
                fenv.set(p.arg, kwargs[p.arg])
            elif d is not None:
                fenv.set(p.arg, self.ev(d, defenv))
            else:
                fenv.set(p.arg, Sym(p.arg))
        if a.kwarg:
            d = DictV()
            names = set(params) | {p.arg for p in a.kwonlyargs}
            for k, v in kwargs.items():
                if k not in names:
                    d.set(Const(k), v)
            fenv.set(a.kwarg.arg, d)

    def call_func(self, f, args, kwargs, n=None):
        st = self.stubs.get(f.name)
        if st is not None:
            return st(self, f, list(args), dict(kwargs))
        if self.depth_total() > self.MAX_DEPTH:
            self.unk("depth:" + f.name, n)
            return Op("call", (Sym(f.name),) + tuple(args))
        # a function recursing on itself past any depth the pinned tree needs (its stop condition is not concrete here)
        if self.__dict__.setdefault('active', {}).get(f.name, 0) >= self.MAX_SELF_RECURSION:
            self.unk("recursion:" + f.name, n)
            return Op("call", (Sym(f.name),) + tuple(args))
        fenv = Env(f.env)
        if f.clsv is not None:
            fenv.set("$class", f.clsv)
        self.calltrace.append((f.name, list(args), dict(kwargs), f.selfobj))
        saved_file = self.file
        if f.module is not None:
            self.file = f.module.rel()
        elif f.env.get("$module") is not None:
            self.file = f.env.get("$module").rel()
        self.bind_params(f, args, kwargs, fenv, f.env)
        # a method invoked on another instance runs in that instance's naming scope
        pushed = False
        if f.selfobj is not None and f.selfobj.kind == "inst" and f.selfobj is not self.cur_inst():
            self.inst_stack.append(f.selfobj); pushed = True
        # a method of the instance under elaboration called from its own __init__ names its objects like __init__ does
        flat = (f.selfobj is not None and f.selfobj is self.cur_inst() and f.clsv is not None and not pushed and self.depth == 0
                and f.node.name not in ("__init__",) and self.nest < 40)
        if not flat:
            self.depth += 1
        self.nest += 1
        k = self.call_counts.get(f.name, 0) + 1
        self.call_counts[f.name] = k
        if not flat:
            self.callname.append("%s#%d" % (f.name.split(".")[-1], k))
        ncfg = len(self.cfg)
        self.active[f.name] = self.active.get(f.name, 0) + 1
        try:
            r = self.run_body(f.node.body, fenv)
        finally:
            self.active[f.name] -= 1
            del self.cfg[ncfg:]
            if not flat:
                self.callname.pop()
                self.depth -= 1
            self.nest -= 1
            if pushed:
                self.inst_stack.pop()
            self.file = saved_file
        return r if r is not None else Const(None)

    def depth_total(self):
        return self.depth + len(self.inst_stack) + self.nest // 4

    def instantiate(self, clsv, args, kwargs, n=None, name=None):
        """Elaborate a repository class: run its __init__ symbolically with `self` = a fresh instance."""
        o = self.new_obj(clsv.name, args, kwargs, n, kind="inst")
        o.clsv = clsv
        self.anon += 1
        if name is None and n is not None and id(n) in self.hints:
            name = self.prefix() + self.hints.pop(id(n))
        if name is None:
            name = self.prefix() + "$%s%d" % (clsv.name, self.anon)
        self.register_name(o, name)
        o.path = o.name
        o.provisional = False
        o.name_depth = 0
        self.design.instances[o.path] = o
        fm = self.find_method(clsv, "__init__")
        if fm is not None:
            fa = fm[1].args
            formals = [a.arg for a in list(getattr(fa, "posonlyargs", [])) + list(fa.args)][1:]
            o.args, o.kwargs = self.canon_args(formals, list(args), dict(kwargs))
        if fm is not None and clsv.name in getattr(self, "opaque_classes", ()):
            return o          # instance kept as an opaque object with its (canonical) constructor arguments: its body is not needed by the caller
        if fm is None:
            for b in clsv.bases:
                if isinstance(b, ast.Call) and isinstance(b.func, ast.Name) and b.func.id == "namedtuple" and len(b.args) == 2:
                    try:
                        fields = [e.value for e in b.args[1].elts]
                    except Exception:
                        fields = []
                    for i, fnm in enumerate(fields):
                        if i < len(args):
                            o.attrs[fnm] = args[i]
                        elif fnm in kwargs:
                            o.attrs[fnm] = kwargs[fnm]
            return o
        if self.depth_total() > self.MAX_DEPTH:
            self.unk("depth:" + clsv.name, n)
            return o
        fn = Func(fm[1], fm[0].env, fm[0].name + ".__init__", selfobj=o, clsv=fm[0], module=fm[0].module)
        saved_depth = self.depth
        self.depth = -1      # call_func adds 1 -> the __init__ body runs at naming depth 0
        self.inst_stack.append(o)
        try:
            self.call_func(fn, args, kwargs, n)
        except _Dead:
            o.meta["dead"] = True
        finally:
            self.inst_stack.pop()
            self.depth = saved_depth
        return o

    def add_submodule(self, owner, name, v):
        self.design.submodules.append((owner.path if owner is not None else "", name, v))

    # ------------------------------------------------------------------------------------------
    # statements
    # ------------------------------------------------------------------------------------------
    def run_body(self, body, env):
        """Run a function body; returns the (possibly phi-joined) return value or None."""
        pending = []     # [(cond term, value)] returns taken under symbolic configuration conditions
        try:
            self.run(body, env, pending)
            final = None
        except _Return as r:
            final = r.v
        except _Dead:
            # the fall-through path raises: the function returns one of the values returned under a condition
            if not pending:
                raise
            final = pending[-1][1]
            pending = pending[:-1]
            if not pending:
                return final
        if pending:
            res = final if final is not None else Const(None)
            for c, v in reversed(pending):
                res = v if veq(v, res) else Op("phi", (c, v, res))
            return res
        return final

    def run(self, body, env, pending):
        for s in body:
            self.st(s, env, pending)

    def st(self, s, env, pending=None):
        self.steps += 1
        if self.steps > self.MAX_STEPS:
            raise Budget("more than %d interpreter steps" % self.MAX_STEPS)
        m = getattr(self, "st_" + type(s).__name__, None)
        if m is None:
            self.unk("stmt:" + type(s).__name__, s)
            return
        return m(s, env, pending)

    def st_Pass(self, s, env, p): pass
    def st_Import(self, s, env, p): pass
    def st_ImportFrom(self, s, env, p):
        # function-level `from <repo module> import a, b`: bind the names to what the module defines (module-level imports are resolved
        # lazily through lookup_global)
        if env.get("$module") is not None and env.vars.get("$module") is not None:
            return                      # module scope: handled by lookup_global
        if not s.module or s.level:
            return
        menv = self.modenv(s.module)
        if menv is None:
            return
        for a in s.names:
            v = menv.vars.get(a.name)
            if v is None:
                v = self.lookup_global(menv, a.name)
            if v is not None:
                env.set(a.asname or a.name, v)
    def st_Global(self, s, env, p): pass
    def st_Nonlocal(self, s, env, p): pass
    def st_Delete(self, s, env, p): pass
    def st_ClassDef(self, s, env, p): pass

    def st_Assert(self, s, env, p):
        pass

    def st_Raise(self, s, env, p):
        raise _Dead()

    def st_Break(self, s, env, p):
        raise _Break()

    def st_Continue(self, s, env, p):
        raise _Continue()

    def st_Return(self, s, env, p):
        raise _Return(self.ev(s.value, env) if s.value is not None else Const(None))

    def st_Expr(self, s, env, p):
        self.ev(s.value, env)

    def st_FunctionDef(self, s, env, p):
        m = env.get("$module")
        env.set(s.name, Func(s, env, s.name, module=m))

    def st_With(self, s, env, p):
        self.run(s.body, env, p)

    def st_Try(self, s, env, p):
        try:
            self.run(s.body, env, p)
        except _Dead:
            for h in s.handlers:
                self.run(h.body, env, p)
                break

    def st_While(self, s, env, p):
        c = self.ev(s.test, env)
        t = self.pytruth(c)
        if t is False:
            return
        self.cfg.append(("while " + str(c), True, c))
        try:
            self.run(s.body, env, p)
        except (_Break, _Continue):
            pass
        finally:
            self.cfg.pop()

    def target_hint(self, targets):
        for t in targets:
            if isinstance(t, ast.Attribute) and isinstance(t.value, ast.Attribute) and t.value.attr == "submodules":
                return t.attr
        for t in targets:
            if isinstance(t, ast.Attribute) and isinstance(t.value, ast.Name) and t.value.id == "self":
                return t.attr
        for t in targets:
            if isinstance(t, ast.Name):
                return t.id
        return None

    def set_hint(self, valnode, name):
        if name is None or not isinstance(valnode, ast.Call):
            return
        self.hints[id(valnode)] = name
        # wrapper application  W(...)(Cls(...))
        if isinstance(valnode.func, ast.Call) and len(valnode.args) == 1 and isinstance(valnode.args[0], ast.Call):
            self.hints[id(valnode.args[0])] = name

    def st_Assign(self, s, env, p):
        if self.depth == 0:
            self.set_hint(s.value, self.target_hint(s.targets))
        v = self.ev(s.value, env)
        targets = sorted(s.targets, key=lambda t: 0 if isinstance(t, ast.Attribute) else 1)
        for t in targets:
            self.assign_target(t, v, env)

    def st_AnnAssign(self, s, env, p):
        if s.value is not None:
            self.assign_target(s.target, self.ev(s.value, env), env)

    def assign_target(self, target, v, env, bind=True):
        if isinstance(target, ast.Name):
            if bind:
                self.bind_name(v, target.id)
            env.set(target.id, v)
        elif isinstance(target, ast.Attribute):
            base = self.ev(target.value, env)
            if isinstance(base, Sym) and base.path == "$sink:submodules":
                inst = self.cur_inst()
                if inst is not None:
                    inst.attrs[target.attr] = v
                    self.bind_name(v, target.attr)
                    self.add_submodule(inst, target.attr, v)
                return
            if isinstance(base, Sym) and base.path in ("$sink:specials", "$sink:clock_domains"):
                inst = self.cur_inst()
                if inst is not None:
                    inst.attrs[target.attr] = v
                    self.bind_name(v, target.attr)
                return
            if isinstance(base, Obj):
                self.setattr(base, target.attr, v)
            elif isinstance(base, ClassV):
                self.cls_dyn.setdefault(id(base), {})[target.attr] = v      # class-level cache set at run time (per elaboration)
            elif isinstance(base, Op) and base.op == "phi":
                for b in base.args[1:]:
                    if isinstance(b, Obj):
                        b.attrs[target.attr] = v
        elif isinstance(target, (ast.Tuple, ast.List)):
            l = pylist(v)
            star = [i for i, t in enumerate(target.elts) if isinstance(t, ast.Starred)]
            if l is not None and not star and len(l) == len(target.elts):
                for t, x in zip(target.elts, l):
                    self.assign_target(t, x, env, bind)
            elif isinstance(v, Op) and v.op == "phi":
                c, a, b = v.args
                la, lb = pylist(a), pylist(b)
                if la is not None and lb is not None and len(la) == len(lb) == len(target.elts):
                    for t, x, y in zip(target.elts, la, lb):
                        self.assign_target(t, x if veq(x, y) else Op("phi", (c, x, y)), env, bind)
                else:
                    for i, t in enumerate(target.elts):
                        self.assign_target(t, Op("item%d" % i, (v,)), env, bind)
            else:
                for i, t in enumerate(target.elts):
                    if isinstance(t, ast.Starred):
                        t = t.value
                    self.assign_target(t, Op("item%d" % i, (v,)), env, bind)
        elif isinstance(target, ast.Subscript):
            base = self.ev(target.value, env)
            if isinstance(target.slice, ast.Slice):
                return
            idx = self.ev(target.slice, env)
            if isinstance(base, DictV):
                base.set(idx, v)
            elif isinstance(base, ListV):
                if isinstance(idx, Const) and isinstance(idx.v, int) and -len(base.items) <= idx.v < len(base.items):
                    base.items[idx.v] = v
                else:
                    base.items.append(Op("setitem", (idx, v)))
        elif isinstance(target, ast.Starred):
            self.assign_target(target.value, v, env, bind)

    def stamp(self, lf):
        self.order += 1
        lf.order = self.order
        lf.cfg = tuple(self.cfg)
        i = self.cur_inst()
        lf.inst = i.path if (i is not None and i.path) else ""
        return lf

    def emit(self, domain, v, node):
        leaves = []
        flatten(self.stmts_of([v]), [], leaves, domain)
        for lf in leaves:
            if lf.loc is None:
                lf.loc = self.loc(node)
            self.stamp(lf)
            self.design.leaves.append(lf)

    def st_AugAssign(self, s, env, p):
        if not isinstance(s.target, ast.Name):
            tgt = self.ev(s.target, env)
        else:
            tgt = env.get(s.target.id)
            if tgt is None:
                tgt = self.lookup_global(env, s.target.id) or Sym(s.target.id)
        v = self.ev(s.value, env)
        if isinstance(s.op, ast.Add):
            path = tgt.path if isinstance(tgt, Sym) else None
            if isinstance(tgt, Op) and tgt.op == "getattr" and isinstance(tgt.args[0], Sym) and tgt.args[0].path == "$sink:sync":
                path = "$sink:sync.<%s>" % (tgt.args[1],)
            if path == "$sink:comb":
                self.emit("comb", v, s); return
            if path and path.startswith("$sink:sync"):
                cd = path[len("$sink:sync"):].lstrip(".")
                self.emit("sync" + (":" + cd if cd else ""), v, s); return
            if path in ("$sink:submodules", "$sink:specials", "$sink:clock_domains"):
                inst = self.cur_inst()
                for o in self.stmts_of([v]):
                    if path == "$sink:submodules":
                        self.add_submodule(inst, None, o)
                return
            if isinstance(tgt, ListV):
                l = pylist(v)
                if l is not None:
                    tgt.items.extend(l)
                else:
                    tgt.items.append(v if isinstance(v, Comp) else Op("star", (v,)))
                return
        nv = self.binop(BINOPS.get(type(s.op), "?"), tgt, v)
        if isinstance(s.target, ast.Name):
            env.set(s.target.id, nv)
        elif isinstance(s.target, ast.Attribute):
            base = self.ev(s.target.value, env)
            if isinstance(base, Obj):
                base.attrs[s.target.attr] = nv
        elif isinstance(s.target, ast.Subscript):
            self.assign_target(s.target, nv, env)

    # configuration-time branches -------------------------------------------------------------------
    def st_If(self, s, env, pending):
        cond = self.ev(s.test, env)
        t = self.pytruth(cond)
        if t is True:
            return self.run(s.body, env, pending)
        if t is False:
            return self.run(s.orelse, env, pending)
        key = str(cond)
        self.design.cfgconds[key] = cond
        inst = self.cur_inst()
        before = dict(env.vars)
        battrs = dict(inst.attrs) if inst is not None else None
        res = []
        for pol, body in ((True, s.body), (False, s.orelse)):
            # containers are cloned per arm so that an in-place `+=` / append in one arm is not seen by the other
            clones = {}
            env.vars = {}
            for k, v in before.items():
                c = _clone_container(v)
                if c is not v:
                    clones[id(c)] = (c, v)
                env.vars[k] = c
            if inst is not None:
                inst.attrs = dict(battrs)
            self.cfg.append((key, pol, cond))
            status, val = "fall", None
            try:
                self.run(body, env, pending)
            except _Return as r:
                status, val = "ret", r.v
            except _Dead:
                status = "dead"
            except (_Break, _Continue):
                status = "loopctl"
            self.cfg.pop()
            for k, v in list(env.vars.items()):
                cv = clones.get(id(v))
                if cv is not None and len(cv[0].items) == len(cv[1].items) and all(x is y for x, y in zip(cv[0].items, cv[1].items)):
                    env.vars[k] = cv[1]       # untouched in this arm: keep the original object (aliases stay aliases)
            res.append((status, val, env.vars, dict(inst.attrs) if inst is not None else None))
        (s1, v1, e1, a1), (s2, v2, e2, a2) = res
        live = [r for r in res if r[0] in ("fall", "loopctl")]
        if s1 == "ret" and s2 == "ret":
            raise _Return(v1 if veq(v1, v2) else Op("phi", (cond, v1, v2)))
        if s1 == "dead" and s2 == "dead":
            raise _Dead()
        if s1 == "ret" and s2 == "dead":
            raise _Return(v1)
        if s2 == "ret" and s1 == "dead":
            raise _Return(v2)
        if s1 in ("ret", "dead") or s2 in ("ret", "dead"):
            # one arm left the function: the rest runs under the other arm's condition
            keep = res[1] if s1 in ("ret", "dead") else res[0]
            env.vars = keep[2]
            if inst is not None:
                inst.attrs = keep[3]
            if s1 == "ret":
                pending.append((cond, v1))
                self.cfg.append((key, False, cond))
            elif s2 == "ret":
                pending.append((Op("not", (cond,)), v2))
                self.cfg.append((key, True, cond))
            elif s1 == "dead":
                self.cfg.append((key, False, cond))
            else:
                self.cfg.append((key, True, cond))
            return
        env.vars = self.merge(cond, e1, e2)
        if inst is not None:
            inst.attrs = self.merge(cond, a1, a2)

    def merge(self, cond, d1, d2):
        merged = {}
        for k in list(d1.keys()) + [k for k in d2.keys() if k not in d1]:
            a, b = d1.get(k), d2.get(k)
            if a is b or veq(a, b):
                merged[k] = a
            elif a is None:
                merged[k] = b
            elif b is None:
                merged[k] = a
            else:
                merged[k] = Op("phi", (cond, a, b))
        return merged

    # loops ---------------------------------------------------------------------------------------
    def st_For(self, s, env, pending):
        it = self.ev(s.iter, env)
        items = self.iter_items(it)
        if items is not None and len(items) <= self.MAX_UNROLL:
            for item in list(items):
                self.assign_target(s.target, item, env, bind=False)
                try:
                    self.run(s.body, env, pending)
                except _Break:
                    break
                except _Continue:
                    continue
            else:
                if s.orelse:
                    self.run(s.orelse, env, pending)
            return
        # symbolic iteration count: evaluate the body once with a symbolic element; recognise the
        # register delay-chain idiom  `for i in range(N): n = Signal(); sync += n.eq(x); x = n`
        before = dict(env.vars)
        key = "for %s in %s" % (unparse(s.target), it)
        nleaves = len(self.design.leaves)
        self.bind_loop(s.target, it, env)
        self.cfg.append((key, True, it))
        try:
            self.run(s.body, env, pending)
        except (_Break, _Continue):
            pass
        finally:
            self.cfg.pop()
        count = None
        if isinstance(it, Op) and it.op == "call" and isinstance(it.args[0], Sym) and it.args[0].path == "range" and len(it.args) == 2:
            count = it.args[1]
        new = self.design.leaves[nleaves:]
        for k, v0 in before.items():
            v1 = env.vars.get(k)
            if isinstance(v0, ListV) and isinstance(v1, ListV) and v1 is not v0 and len(v0.items) == len(v1.items) and v0.items and count is not None:
                # a list of signals delayed together:  delayed = [Signal.like(x) for x in xs]; sync += [n.eq(o) ...]; xs = delayed
                outs = []
                for x0, x1 in zip(v0.items, v1.items):
                    regs = [lf for lf in new if lf.kind == "assign" and lf.target is x1 and lf.domain.startswith("sync")
                            and not lf.guards and (lf.value is x0 or veq(lf.value, x0))] if isinstance(x1, Obj) and x1.cls == "Signal" else []
                    if not regs:
                        outs = None
                        break
                    regs[0].extra = ("delaychain", x0, count)
                    outs.append(Op("delay", (x0, count, Const(regs[0].domain))))
                if outs is not None:
                    env.vars[k] = ListV(outs, v1.tup)
                    continue
            if v1 is v0 or not isinstance(v1, Obj) or v1.cls != "Signal":
                continue
            # loop-carried variable now bound to a Signal created in the body
            regs = [lf for lf in new if lf.kind == "assign" and lf.target is v1 and lf.domain.startswith("sync")
                    and not lf.guards and (lf.value is v0 or veq(lf.value, v0))]
            if regs and count is not None:
                d = Op("delay", (v0, count, Const(regs[0].domain)))
                env.vars[k] = d
                regs[0].extra = ("delaychain", v0, count)
            else:
                env.vars[k] = Op("loopcarried", (v0, v1, it))


# ---------------------------------------------------------------------------------------------------
# public API
# ---------------------------------------------------------------------------------------------------

def param(name):
    return Sym(name)


def plist(prefix, n):
    """A concrete list of n symbolic elements named prefix0..prefix{n-1}."""
    return ListV([Sym("%s%d" % (prefix, i)) for i in range(n)])


def elaborate(repo, modname, clsname, args=None, kwargs=None, overrides=None, hasattrs=None, calls=(), opaque=()):
    """Elaborate class `clsname` of module `modname` as the top instance (path '').

    args / kwargs: constructor arguments (V); parameters not given become Sym(<param name>).
    overrides: {Sym path: V} structural valuation applied wherever that path is read.
    calls: further methods to run on the instance afterwards: [(method, args, kwargs)].
    Returns (Design, Elab).
    """
    el = Elab(repo, overrides, hasattrs)
    el.opaque_classes = set(opaque)
    env = el.modenv(modname)
    if env is None:
        raise KeyError("module %s not found" % modname)
    clsv = env.vars.get(clsname)
    if not isinstance(clsv, ClassV):
        raise KeyError("class %s not found in %s" % (clsname, modname))
    el.file = clsv.module.rel()
    top = el.new_obj(clsname, args or (), kwargs or {}, None, kind="inst")
    top.clsv = clsv
    top.path = ""
    top.name = "self"
    top.provisional = False
    top.name_depth = 0
    el.design.names["self"] = top
    el.design.instances[""] = top
    el.design.top = top
    fm = el.find_method(clsv, "__init__")
    el.inst_stack.append(top)
    try:
        if fm is not None:
            fn = Func(fm[1], fm[0].env, fm[0].name + ".__init__", selfobj=top, clsv=fm[0], module=fm[0].module)
            el.depth = -1
            try:
                el.call_func(fn, list(args or ()), dict(kwargs or {}), None)
            except _Dead:
                top.meta["dead"] = True
            el.depth = 0
        for mname, margs, mkw in calls:
            fm = el.find_method(clsv, mname)
            if fm is None:
                raise KeyError("method %s.%s not found" % (clsname, mname))
            fn = Func(fm[1], fm[0].env, fm[0].name + "." + mname, selfobj=top, clsv=fm[0], module=fm[0].module)
            el.depth = -1
            try:
                r = el.call_func(fn, list(margs or ()), dict(mkw or {}), None)
                top.meta.setdefault("results", []).append((mname, r))
            except _Dead:
                top.meta.setdefault("results", []).append((mname, None))
            el.depth = 0
    finally:
        el.inst_stack.pop()
    return el.design, el


def eval_method(repo, modname, clsname, method, args=None, kwargs=None, overrides=None, hasattrs=None, init=False, stubs=None):
    """Symbolically evaluate one method of a repository class on a fresh symbolic instance `self`
    (its __init__ is NOT run: attributes are opaque `self.x` symbols - unless init=True, in which case __init__ runs first
    with every formal parameter `p` bound to the symbol `init.p`). Returns (value, Elab)."""
    el = Elab(repo, overrides, hasattrs)
    el.stubs.update(stubs or {})
    env = el.modenv(modname)
    if env is None:
        raise KeyError("module %s not found" % modname)
    clsv = env.vars.get(clsname)
    if not isinstance(clsv, ClassV):
        raise KeyError("class %s not found in %s" % (clsname, modname))
    top = el.new_obj(clsname, (), {}, None, kind="inst")
    top.clsv = clsv
    top.path = ""
    top.name = "self"
    top.provisional = False
    el.design.names["self"] = top
    el.design.top = top
    fm = el.find_method(clsv, method)
    if fm is None:
        raise KeyError("method %s.%s not found" % (clsname, method))
    fn = Func(fm[1], fm[0].env, fm[0].name + "." + method, selfobj=top, clsv=fm[0], module=fm[0].module)
    el.inst_stack.append(top)
    el.depth = -1
    if init:
        im = el.find_method(clsv, "__init__")
        if im is not None:
            formals = [a.arg for a in im[1].args.args][1:]
            ifn = Func(im[1], im[0].env, im[0].name + ".__init__", selfobj=top, clsv=im[0], module=im[0].module)
            try:
                el.call_func(ifn, [Sym("init." + f) for f in formals], {}, None)
            except _Dead:
                pass
            el.depth = -1
    try:
        r = el.call_func(fn, list(args or ()), dict(kwargs or {}), None)
    except _Dead:
        r = None
    finally:
        el.inst_stack.pop()
        el.depth = 0
    return r, el


def eval_function(repo, modname, fname, args=None, kwargs=None, overrides=None, selfobj=None):
    """Symbolically evaluate a module-level function; returns (value, Elab)."""
    el = Elab(repo, overrides)
    env = el.modenv(modname)
    f = env.vars.get(fname)
    if not isinstance(f, Func):
        raise KeyError("function %s not found in %s" % (fname, modname))
    el.design.top = None
    try:
        r = el.call_func(f, list(args or ()), dict(kwargs or {}), None)
    except _Dead:
        r = None
    return r, el


if __name__ == "__main__":
    import sys
    repo = Repo()
    mod, cls = sys.argv[1], sys.argv[2]
    ov = {}
    for a in sys.argv[3:]:
        k, v = a.split("=", 1)
        ov[k] = Const(eval(v))
    d, el = elaborate(repo, mod, cls, overrides=ov)
    print(d.dump())
    for p, o in d.instances.items():
        print("INST", repr(p), o.cls)
    for u in d.unknown:
        print("UNKNOWN", u)
