"""Self-test corpus: realistic breaking edits (must be REFUTED) and benign twins (must HOLD).
Only used by lsa.selftest on scratch copies; never part of a property verdict."""
BMF = "litedram/core/bankmachine.py"
MXF = "litedram/core/multiplexer.py"
CMF = "litedram/common.py"
RFF = "litedram/core/refresher.py"
XBF = "litedram/core/crossbar.py"
DMF = "litedram/frontend/dma.py"
MDF = "litedram/modules.py"
COF = "litedram/common.py"
CTF = "litedram/core/controller.py"
ADF = "litedram/frontend/adapter.py"
WBF = "litedram/frontend/wishbone.py"
AVF = "litedram/frontend/avalon.py"
ECF = "litedram/frontend/ecc.py"
BIF = "litedram/frontend/bist.py"
INF = "litedram/init.py"
DFF = "litedram/dfii.py"
DIF = "litedram/phy/dfi.py"
UTF = "litedram/phy/utils.py"
MOF = "litedram/phy/model.py"
L4F = "litedram/phy/lpddr4/commands.py"
L5F = "litedram/phy/lpddr5/commands.py"
L4S = "litedram/phy/lpddr4/sim.py"
AXF = "litedram/frontend/axi.py"
FFF = "litedram/frontend/fifo.py"


def M(id, prop, ob, file, old, new, expect="refuted", **kw):
    d = {"id": id, "prop": prop, "ob": ob, "expect": expect, "edits": [{"file": file, "old": old, "new": new}]}
    d["edits"].extend(kw.pop("more", []))
    d.update(kw)
    return d


def B(id, prop, file, old, new, **kw):
    return M(id, prop, None, file, old, new, expect="holds", **kw)


MUTANTS = [
    # ---- C03 ----
    M("c03.1-load-2", "C03", "C03.1", CMF, "count.eq(txxd - 1),", "count.eq(txxd - 2),"),
    M("c03.1-term-2", "C03", "C03.1", CMF, "If(count == 1,\n                        ready.eq(1)", "If(count == 2,\n                        ready.eq(1)"),
    B("c03.1-twin", "C03", CMF, "count.eq(txxd - 1),", "count.eq(-1 + txxd),"),
    M("c03.1-sep-stmt", "C03", "C03.1", CMF, """                ).Elif(~ready,
                    count.eq(count - 1),
                    If(count == 1,
                        ready.eq(1)
                    )
                )
""", """                ).Elif(~ready,
                    count.eq(count - 1),
                )
            self.sync += If(~ready & (count == 1), ready.eq(1))
"""),
    B("c03.1-twin-valueform", "C03", CMF, """                    If((txxd - 1) == 0,
                        ready.eq(1)
                    ).Else(
                        ready.eq(0)
                    )
""", """                    ready.eq((txxd - 1) == 0),
"""),
    M("c03.1-faw5", "C03", "C03.1", CMF, "If(count < 4,", "If(count < 5,"),
    M("c03.2-refresh-notras", "C03", "C03.2", BMF, "If(twtpcon.ready & trascon.ready,\n                refresh_gnt.eq(1),", "If(twtpcon.ready,\n                refresh_gnt.eq(1),"),
    M("c03.2-ap-notras", "C03", "C03.2", BMF, 'fsm.act("AUTOPRECHARGE",\n            If(twtpcon.ready & trascon.ready,', 'fsm.act("AUTOPRECHARGE",\n            If(twtpcon.ready,'),
    M("c03.2-pre-notwtp", "C03", "C03.2", BMF, "# Note: we are presenting the column address, A10 is always low\n            If(twtpcon.ready & trascon.ready,", "If(trascon.ready,"),
    B("c03.2-twin-helper", "C03", BMF, 'fsm.act("AUTOPRECHARGE",\n            If(twtpcon.ready & trascon.ready,', 'can_pre = Signal()\n        self.comb += can_pre.eq(trascon.ready & twtpcon.ready)\n        fsm.act("AUTOPRECHARGE",\n            If(can_pre,'),
    M("c03.2-act-notrc", "C03", "C03.2", BMF, "If(trccon.ready,\n                row_col_n_addr_sel.eq(1),", "If(1,\n                row_col_n_addr_sel.eq(1),"),
    M("c03.2-trigger", "C03", "C03.2", BMF, "trascon.valid.eq(cmd.valid & cmd.ready & row_open)", "trascon.valid.eq(cmd.valid & row_open)"),
    M("c03.3-trp-2", "C03", "C03.3", BMF, "settings.timing.tRP - 1)", "settings.timing.tRP - 2)"),
    M("c03.3-trcd-2", "C03", "C03.3", BMF, "settings.timing.tRCD - 1)", "settings.timing.tRCD - 2)"),
    B("c03.3-twin", "C03", BMF, "settings.timing.tRP - 1)", "settings.timing.tRP + (-1))"),
    M("c03.3-noready", "C03", "C03.3", BMF, 'If(cmd.ready,\n                    NextState("TRP")\n                ),', 'NextState("TRP"),'),
    M("c03.4-twtp-notccd", "C03", "C03.4", BMF, "write_latency + settings.timing.tWR + settings.timing.tCCD # AL=0", "write_latency + settings.timing.tWR # AL=0"),
    M("c03.4-tras-from-trc", "C03", ["C03.4", "C03.2"], BMF, "trascon = tXXDController(settings.timing.tRAS)", "trascon = tXXDController(settings.timing.tRCD)"),
    B("c03.4-twin", "C03", BMF, "write_latency + settings.timing.tWR + settings.timing.tCCD # AL=0", "settings.timing.tCCD + write_latency + settings.timing.tWR"),
    M("c03.5-cmd-ready-1", "C03", "C03.5", MXF, "choose_cmd.cmd.ready.eq(~choose_cmd.activate() | ras_allowed),\n                choose_req.cmd.ready.eq(cas_allowed)\n", "choose_cmd.cmd.ready.eq(1),\n                choose_req.cmd.ready.eq(cas_allowed)\n"),
    M("c03.5-wtr-uncond", "C03", "C03.5", MXF, 'If(twtrcon.ready,\n                NextState("READ")\n            )', 'NextState("READ")'),
    M("c03.5-write-to-read", "C03", "C03.5", MXF, 'If(~write_available | max_write_time,\n                    NextState("WTR")', 'If(~write_available | max_write_time,\n                    NextState("READ")'),
    M("c03.5-no-tccd", "C03", "C03.5", MXF, "self.comb += cas_allowed.eq(tccdcon.ready)", "self.comb += cas_allowed.eq(1)"),
    M("c03.5-ras-only-trrd", "C03", "C03.5", MXF, "ras_allowed.eq(trrdcon.ready & tfawcon.ready)", "ras_allowed.eq(trrdcon.ready)"),
    B("c03.5-twin-inline", "C03", MXF, "choose_req.cmd.ready.eq(cas_allowed),\n", "choose_req.cmd.ready.eq(tccdcon.ready),\n"),
    M("c03.5-trigger-twtr", "C03", "C03.5", MXF, "twtrcon.valid.eq(choose_req.accept() & choose_req.write())", "twtrcon.valid.eq(choose_req.accept() & choose_req.read())"),
    M("c03.6-trp-1", "C03", "C03.6", RFF, "# Auto Refresh after tRP\n                (trp, [", "# Auto Refresh after tRP\n                (trp - 1, ["),
    M("c03.6-done-early", "C03", "C03.6", RFF, "# Done after tRP + tRFC\n                (trp + trfc, [", "# Done after tRP + tRFC\n                (trp + trfc - 1, ["),
    B("c03.6-twin", "C03", RFF, "# Done after tRP + tRFC\n                (trp + trfc, [", "# Done after tRP + tRFC\n                (trfc + trp, ["),
    M("c03.6-swap-args", "C03", "C03.6", RFF, "sequencer = RefreshSequencer(cmd, settings.timing.tRP, settings.timing.tRFC, postponing)", "sequencer = RefreshSequencer(cmd, settings.timing.tRFC, settings.timing.tRP, postponing)"),
    M("c03.6-early-release", "C03", "C03.6", RFF, 'fsm.act("DO-ZQCS",\n                cmd.valid.eq(1),\n                If(zqcs_executer.done,', 'fsm.act("DO-ZQCS",\n                cmd.valid.eq(1),\n                If(zqcs_executer.start | zqcs_executer.done,'),
    # ---- C02 ----
    M("c02.1-refresh-isread", "C02", "C02.1", BMF, "row_close.eq(1),\n            cmd.is_cmd.eq(1),\n            If(~refresh_req,", "row_close.eq(1),\n            cmd.is_read.eq(1),\n            If(~refresh_req,"),
    M("c02.1-pre-nowe", "C02", None, BMF, "cmd.ras.eq(1),\n                cmd.we.eq(1),\n                cmd.is_cmd.eq(1)", "cmd.ras.eq(1),\n                cmd.is_cmd.eq(1)"),
    M("c02.1-cmds-table", "C02", "C02.1", "litedram/phy/model.py", '("PRE",  "0010"), # Precharge', '("PRE",  "0011"), # Precharge'),
    M("c02.1-model-decode", "C02", "C02.1", "litedram/phy/model.py", "self.activate.eq(phase.we_n),\n                self.precharge.eq(~phase.we_n)", "self.activate.eq(~phase.we_n),\n                self.precharge.eq(phase.we_n)"),
    M("c02.2-refresh-noclose", "C02", "C02.2", BMF, "refresh_gnt.eq(1),\n            ),\n            row_close.eq(1),", "refresh_gnt.eq(1),\n            ),"),
    M("c02.2-row-lookahead", "C02", "C02.2", BMF, "row_opened.eq(1),\n                row.eq(slicer.row(cmd_buffer.source.addr))", "row_opened.eq(1),\n                row.eq(slicer.row(cmd_buffer_lookahead.source.addr))"),
    M("c02.2-pre-skip-wait", "C02", "C02.2", BMF, 'If(cmd.ready,\n                    NextState("TRP")\n                ),', 'NextState("TRP"),'),
    M("c02.2-refresh-exit", "C02", "C02.2", BMF, 'If(~refresh_req,\n                NextState("REGULAR")', 'If(refresh_gnt,\n                NextState("REGULAR")'),
    B("c02.2-twin-split", "C02", BMF, "If(row_opened,\n                    If(row_hit,", "If(row_opened & 1,\n                    If(row_hit,"),
    M("c02.3-ap-const", "C02", "C02.3", BMF, "auto_precharge.eq(row_close == 0)", "auto_precharge.eq(1)"),
    M("c02.3-ap-edge", "C02", "C02.3", BMF, "If(cmd.ready & auto_precharge,", "If(auto_precharge,"),
    B("c02.3-twin", "C02", BMF, "auto_precharge.eq(row_close == 0)", "auto_precharge.eq(~row_close)"),
    M("c02.4-gnts-partial", "C02", "C02.4", MXF, "bm_refresh_gnts = [bm.refresh_gnt for bm in bank_machines]", "bm_refresh_gnts = [bm.refresh_gnt for bm in bank_machines[:-1]]"),
    M("c02.4-gnts-or", "C02", "C02.4", MXF, "go_to_refresh.eq(reduce(and_, bm_refresh_gnts))", "go_to_refresh.eq(reduce(or_, bm_refresh_gnts))"),
    M("c02.4-ready-in-wtr", "C02", "C02.4", MXF, 'fsm.act("WTR",\n            If(twtrcon.ready,', 'fsm.act("WTR",\n            refresher.cmd.ready.eq(1),\n            If(twtrcon.ready,'),
    M("c02.4-req-partial", "C02", "C02.4", MXF, "[bm.refresh_req.eq(refresher.cmd.valid) for bm in bank_machines]", "[bm.refresh_req.eq(refresher.cmd.valid) for bm in bank_machines[1:]]"),
    B("c02.4-twin", "C02", MXF, "bm_refresh_gnts = [bm.refresh_gnt for bm in bank_machines]\n        self.comb += go_to_refresh.eq(reduce(and_, bm_refresh_gnts))", "gnts = list(bm.refresh_gnt for bm in bank_machines)\n        self.comb += go_to_refresh.eq(reduce(and_, gnts))"),
    M("c02.5-cmdphase", "C02", "C02.5", MXF, "rdcmdphase = (rdphase - 1)%nphases", "rdcmdphase = rdphase"),
    M("c02.5-rden-ungated", "C02", "C02.5", MXF, 'rddata_ens = Array(valid_and(cmd, "is_read") for cmd in commands)', 'rddata_ens = Array(getattr(cmd, "is_read") for cmd in commands)'),
    B("c02.5-twin", "C02", MXF, "rdcmdphase = (rdphase - 1)%nphases", "rdcmdphase = (rdphase + nphases - 1)%nphases"),
    M("c02.5-valid-and", "C02", "C02.5", MXF, "return cmd.valid & cmd.ready & getattr(cmd, attr)", "return cmd.valid & getattr(cmd, attr)"),
    M("c02.6-override-phase1", "C02", "C02.6", MXF, "if i == 0: # Select all ranks on refresh.", "if i == 1: # Select all ranks on refresh."),
    M("c02.6-rank-low-bits", "C02", "C02.6", MXF, "Array(cmd.ba[-rankbits:] for cmd in commands)[sel]", "Array(cmd.ba[:rankbits] for cmd in commands)[sel]"),
    # ---- C12 ----
    M("c12.1-cmd-nores", "C12", ["C12.1", "C12.2"], DMF, "cmd.valid.eq(enable & sink.valid & res_fifo.sink.ready),", "cmd.valid.eq(enable & sink.valid),"),
    M("c12.1-depth+1", "C12", "C12.1", DMF, 'res_fifo = stream.SyncFIFO([("dummy", 1)], fifo_depth)', 'res_fifo = stream.SyncFIFO([("dummy", 1)], fifo_depth + 1)'),
    M("c12.1-res-buffered", "C12", "C12.1", DMF, 'res_fifo = stream.SyncFIFO([("dummy", 1)], fifo_depth)', 'res_fifo = stream.SyncFIFO([("dummy", 1)], fifo_depth, buffered=True)'),
    M("c12.1-pop", "C12", "C12.1", DMF, "res_fifo.source.ready.eq(fifo.source.valid & fifo.source.ready)", "res_fifo.source.ready.eq(fifo.source.ready)"),
    M("c12.3-last", "C12", "C12.3", DMF, "res_fifo.sink.last.eq(cmd.last),", "res_fifo.sink.last.eq(0),"),
    M("c12.4-fork", "C12", "C12.4", DMF, "fifo.sink.valid.eq(sink.valid & cmd.ready),", "fifo.sink.valid.eq(sink.valid),"),
    B("c12-twin-order", "C12", DMF, "cmd.valid.eq(enable & sink.valid & res_fifo.sink.ready),", "cmd.valid.eq(res_fifo.sink.ready & enable & sink.valid),"),
    B("c12-twin-helper", "C12", DMF, "sink.ready.eq(enable & cmd.ready & res_fifo.sink.ready),", "sink.ready.eq(can_issue & cmd.ready),\n            can_issue.eq(enable & res_fifo.sink.ready),"),
    # ---- C16 ----
    M("c16.1-round", "C16", "C16.1", MDF, "return rounding(t/clk_period_ns)", "return round(t/clk_period_ns)"),
    M("c16.1-default-floor", "C16", "C16.1", MDF, "def ns_to_cycles(self, t, margin=True, rounding=ceil):", "def ns_to_cycles(self, t, margin=True, rounding=floor):"),
    M("c16.1-ck-floor", "C16", "C16.1", MDF, "return ceil(c/self.rate_frac.denom)", "return c//self.rate_frac.denom"),
    M("c16.1-min", "C16", "C16.1", MDF, "return max(self.ck_to_cycles(timing.ck), self.ns_to_cycles(timing.ns, **kwargs))", "return min(self.ck_to_cycles(timing.ck), self.ns_to_cycles(timing.ns, **kwargs))"),
    M("c16.2-nomargin-trcd", "C16", "C16.2", MDF, 'tRCD  = self.ck_ns_to_cycles(self.get("tRCD")),', 'tRCD  = self.ck_ns_to_cycles(self.get("tRCD"), margin=False),'),
    M("c16.2-half-margin", "C16", "C16.2", MDF, "return clk_period_ns * (1 - frac.num/frac.denom)", "return clk_period_ns * (1 - frac.num/frac.denom) / 2"),
    M("c16.2-margin-default", "C16", "C16.2", MDF, "def ns_to_cycles(self, t, margin=True, rounding=ceil):", "def ns_to_cycles(self, t, margin=False, rounding=ceil):"),
    M("c16.3-trefi-ceil", "C16", "C16.3", MDF, "margin=False, rounding=floor),", "margin=False),"),
    M("c16.3-trefi-margin", "C16", "C16.3", MDF, "margin=False, rounding=floor),", "rounding=floor),"),
    M("c16.4-trc", "C16", "C16.4", MDF, 'self.ck_ns_to_cycles(self.get("tRP") + self.get("tRAS")),', 'self.ck_ns_to_cycles(self.get("tRAS")),'),
    M("c16.4-swap", "C16", "C16.4", MDF, 'tWR   = self.ck_ns_to_cycles(self.get("tWR")),', 'tWR   = self.ck_ns_to_cycles(self.get("tWTR")),'),
    M("c16.5-override", "C16", "C16.5", MDF, "class MT48LC4M16(SDRModule):\n", "class MT48LC4M16(SDRModule):\n    def ns_to_cycles(self, t, margin=True):\n        return int(t*self.clk_freq/1e9)\n"),
    M("c16.6-spd-round", "C16", "C16.6", MDF, "trcd_min = self.txx_ns(mtb=b[18], ftb=b[36])", "trcd_min = round(self.txx_ns(mtb=b[18], ftb=b[36]))"),
    B("c16-twin-order", "C16", MDF, "return max(self.ck_to_cycles(timing.ck), self.ns_to_cycles(timing.ns, **kwargs))", "return max(self.ns_to_cycles(timing.ns, **kwargs), self.ck_to_cycles(timing.ck))"),
    B("c16-twin-period", "C16", MDF, "        t += self.margin if margin else 0\n        return rounding(t/clk_period_ns)", "        if margin:\n            t = t + self.margin\n        return rounding(t/clk_period_ns)"),
    # ---- C04 ----
    M("c04.1-timer-wait", "C04", "C04.1", RFF, "self.comb += timer.wait.eq(~timer.done)", "self.comb += timer.wait.eq(~timer.done & ~cmd.valid)"),
    M("c04.1-trefi-half", "C04", "C04.1", RFF, "timer = RefreshTimer(settings.timing.tREFI)", "timer = RefreshTimer(settings.timing.tREFI + settings.timing.tRFC)"),
    M("c04.1-timer-reset", "C04", "C04.1", RFF, "count = Signal(bits_for(trefi), reset=trefi-1)\n\n        self.sync += [\n            If(self.wait & ~self.done,", "count = Signal(bits_for(trefi), reset=trefi)\n\n        self.sync += [\n            If(self.wait & ~self.done,"),
    M("c04.2-seq-postponing", "C04", "C04.2", RFF, "settings.timing.tRFC, postponing)", "settings.timing.tRFC)"),
    M("c04.2-seq-count", "C04", "C04.2", RFF, "count = Signal(bits_for(postponing), reset=postponing-1)\n        self.sync += [\n            If(self.start,", "count = Signal(bits_for(postponing), reset=postponing-2)\n        self.sync += [\n            If(self.start,"),
    M("c04.3-refresh-late", "C04", "C04.3", BMF, 'If(refresh_req,\n                NextState("REFRESH")\n            ).Elif(cmd_buffer.source.valid,', 'If(refresh_req & ~cmd_buffer.source.valid,\n                NextState("REFRESH")\n            ).Elif(cmd_buffer.source.valid,'),
    M("c04.3-mux-order", "C04", "C04.3", MXF, '            If(go_to_refresh,\n                NextState("REFRESH")\n            )\n        )\n        fsm.act("WRITE",', '        )\n        fsm.act("WRITE",'),
    M("c04.5-zqcs-pulse", "C04", "C04.5", RFF, "            self.sync += [\n                If(zqcs_executer.start, wants_zqcs.eq(0)),\n                If(zqcs_timer.done,     wants_zqcs.eq(1)),\n            ]", "            self.comb += wants_zqcs.eq(zqcs_timer.done)"),
    M("c04.7-zqcs-exit-keeps-valid", "C04", "C04.7", RFF, """                If(zqcs_executer.done,
                    cmd.valid.eq(0),
                    cmd.last.eq(1),""", """                If(zqcs_executer.done,
                    cmd.last.eq(1),"""),
    M("c04.7-refresh-exit-keeps-valid", "C04", "C04.7", RFF, """                    ).Else(
                        cmd.valid.eq(0),
                        cmd.last.eq(1),""", """                    ).Else(
                        cmd.last.eq(1),"""),
    M("c04.8-zqcs-defaults", "C04", "C04.8", RFF, """            # Note: Don't set cmd to 0 since already done in RefreshExecuter
            self.done.eq(0),""", """            cmd.a.eq(0), cmd.ba.eq(0), cmd.cas.eq(0), cmd.ras.eq(0), cmd.we.eq(0),
            self.done.eq(0),"""),
    B("c04.7-twin-order", "C04", RFF, """                If(zqcs_executer.done,
                    cmd.valid.eq(0),
                    cmd.last.eq(1),""", """                If(zqcs_executer.done,
                    cmd.last.eq(1),
                    cmd.valid.eq(0),"""),
    B("c04-twin-wait", "C04", RFF, "self.comb += timer.wait.eq(~timer.done)", "self.comb += timer.wait.eq(timer.done == 0)"),
    # ---- C01 ----
    M("c01.1-rowhit-lookahead", "C01", "C01.1", BMF, "self.comb += row_hit.eq(row == slicer.row(cmd_buffer.source.addr))", "self.comb += row_hit.eq(row == slicer.row(cmd_buffer_lookahead.source.addr))"),
    M("c01.1-wdata-ready-1", "C01", "C01.1", BMF, "req.wdata_ready.eq(cmd.ready),", "req.wdata_ready.eq(1),"),
    M("c01.1-pop", "C01", "C01.1", BMF, "cmd_buffer.source.ready.eq(req.wdata_ready | req.rdata_valid),", "cmd_buffer.source.ready.eq(cmd.ready & cmd.cas),"),
    M("c01.2-read-lat", "C01", "C01.2", XBF, "self.read_latency     = controller.settings.phy.read_latency + 1", "self.read_latency     = controller.settings.phy.read_latency"),
    M("c01.2-steerer-comb", "C01", "C01.2", MXF, "            self.sync += [\n                phase.rddata_en.eq(rddata_ens[sel]),\n                phase.wrdata_en.eq(wrdata_ens[sel])\n            ]", "            self.comb += [\n                phase.rddata_en.eq(rddata_ens[sel]),\n                phase.wrdata_en.eq(wrdata_ens[sel])\n            ]"),
    B("c01.2-twin", "C01", XBF, "self.read_latency     = controller.settings.phy.read_latency + 1", "self.read_latency     = 1 + controller.settings.phy.read_latency"),
    M("c01.3-mask-pol", "C01", "C01.3", MXF, "Cat(*all_wrdata_mask).eq(~interface.wdata_we)", "Cat(*all_wrdata_mask).eq(interface.wdata_we)"),
    M("c01.3-wrong-master", "C01", "C01.3", XBF, "controller.wdata_we.eq(master.wdata.we)", "controller.wdata_we.eq(self.masters[0].wdata.we)"),
    M("c01.3-default-we", "C01", "C01.3", XBF, "controller.wdata.eq(0),\n            controller.wdata_we.eq(0)", "controller.wdata.eq(0),\n            controller.wdata_we.eq(2**(controller.data_width//8)-1)"),
    M("c01.3-phase-order", "C01", "C01.3", MXF, "all_wrdata = [p.wrdata for p in dfi.phases]", "all_wrdata = [p.wrdata for p in reversed(dfi.phases)]"),
    B("c01.3-twin-mask-helper", "C01", MXF, "Cat(*all_wrdata_mask).eq(~interface.wdata_we)", "Cat(*all_wrdata_mask).eq(~(interface.wdata_we))"),
    M("c01.4-ce", "C01", "C01.4", XBF, "arbiter.ce.eq(~bank.valid & ~bank.lock)", "arbiter.ce.eq(~bank.valid)"),
    M("c01.4-lock-one-stage", "C01", "C01.4", BMF, "req.lock.eq(cmd_buffer_lookahead.source.valid | cmd_buffer.source.valid | (cmd_buffer_lookahead.level != 0)),", "req.lock.eq(cmd_buffer_lookahead.source.valid | (cmd_buffer_lookahead.level != 0)),"),
    M("c01.4-lock-nolevel", "C01", "C01.4", BMF, " | (cmd_buffer_lookahead.level != 0)),", "),"),
    B("c01.4-twin-ce", "C01", XBF, "arbiter.ce.eq(~bank.valid & ~bank.lock)", "arbiter.ce.eq(~(bank.valid | bank.lock))"),
    M("c01.5-nolocked", "C01", "C01.5", XBF, "bank_selected  = [(ba == nb) & ~locked for ba, locked in zip(m_ba, master_locked)]", "bank_selected  = [(ba == nb) for ba, locked in zip(m_ba, master_locked)]"),
    M("c01.5-skip-bank", "C01", "C01.5", XBF, "if other_nb != nb:", "if other_nb > nb:"),
    M("c01.5-ready-nogrant", "C01", "C01.5", XBF, "master_ready | ((arbiter.grant == nm) & bank_selected[nm] & bank.ready)", "master_ready | (bank_selected[nm] & bank.ready)"),
    # ---- C05 ----
    M("c05.2-no-timeout", "C05", "C05.2", MXF, 'If(~read_available | max_read_time,\n                    NextState("RTW")', 'If(~read_available,\n                    NextState("RTW")'),
    M("c05.2-bound", "C05", "C05.2", MXF, "t = timeout - 1\n", "t = 2*timeout - 1\n"),
    M("c05.2-en-cond", "C05", "C05.2", MXF, "            write_time_en.eq(1),", "            write_time_en.eq(write_available),"),
    B("c05.2-twin-demorgan", "C05", MXF, "If(~read_available | max_read_time,", "If(~(read_available & ~max_read_time),"),
    M("c05.3-chooser-ce", "C05", "C05.3", MXF, "self.comb += arbiter.ce.eq(cmd.ready | ~cmd.valid)", "self.comb += arbiter.ce.eq(cmd.ready)"),
    M("c05.3-policy", "C05", "C05.3", MXF, "arbiter = RoundRobin(n, SP_CE)", "arbiter = RoundRobin(n, SP_WITHDRAW)"),
    M("c05.4-lock-extra", "C05", "C05.4", BMF, " | (cmd_buffer_lookahead.level != 0)),", " | (cmd_buffer_lookahead.level != 0) | row_opened),"),
    M("c05.1-dead-end", "C05", "C05.1", MXF, '        fsm.act("WTR",\n            If(twtrcon.ready,\n                NextState("READ")\n            )\n        )', '        fsm.act("WTR",\n            If(twtrcon.ready,\n                choose_req.want_reads.eq(1)\n            )\n        )'),
    # ---- C06 ----
    M("c06.2-cba-ignores-align", "C06", ["C06.1", "C06.2"], XBF, "controller.settings.geom.colbits - controller.address_align,", "controller.settings.geom.colbits,"),
    M("c06.1-bank-upper", "C06", ["C06.1", "C06.2"], COF, "        cba_upper = cba_shift + bank_bits\n        return self.cmd.addr[cba_shift:cba_upper]", "        cba_upper = cba_shift + bank_bits\n        return self.cmd.addr[cba_shift+1:cba_upper+1]"),
    M("c06.4-col-9", "C06", ["C06.4", "C06.1", "C06.5"], BMF, "address[:10-self.address_align],", "address[:9-self.address_align],"),
    M("c06.4-no-skip", "C06", "C06.4", BMF, "                Replicate(0, 1),\n", ""),
    M("c06.3-row-split", "C06", ["C06.3", "C06.1"], BMF, "    def row(self, address):\n        split = self.colbits - self.address_align", "    def row(self, address):\n        split = self.colbits"),
    M("c06.5-align", "C06", "C06.5", CTF, "address_align = log2_int(burst_length)", "address_align = log2_int(burst_length) - 1"),
    M("c06.5-sdr", "C06", "C06.5", CTF, "burst_length = phy_settings.nphases", "burst_length = 2*phy_settings.nphases"),
    B("c06-twin-split", "C06", BMF, "    def row(self, address):\n        split = self.colbits - self.address_align\n        return address[split:]", "    def row(self, address):\n        return address[self.colbits - self.address_align:]"),
    B("c06-twin-rca", "C06", COF, "            if cba_shift:\n                return Cat(self.cmd.addr[:cba_shift], self.cmd.addr[cba_upper:])\n            else:\n                return self.cmd.addr[cba_upper:]", "            return Cat(self.cmd.addr[:cba_shift], self.cmd.addr[cba_upper:])"),
    # ---- C07 ----
    M("c07.1-addr+1", "C07", "C07.1", ADF, "port_to.cmd.addr.eq(cmd_addr*ratio + cmd_count),", "port_to.cmd.addr.eq(cmd_addr*ratio + cmd_count + 1),"),
    M("c07.1-count", "C07", "C07.1", ADF, "If(cmd_count == (ratio - 1),", "If(cmd_count == ratio,"),
    M("c07.1-reverse", "C07", "C07.1", ADF, "                description_from = port_to.rdata.description,\n                description_to   = port_from.rdata.description,\n                reverse          = reverse)\n            self.submodules += rdata_converter\n            self.submodules += stream.Pipeline(", "                description_from = port_to.rdata.description,\n                description_to   = port_from.rdata.description,\n                reverse          = not reverse)\n            self.submodules += rdata_converter\n            self.submodules += stream.Pipeline("),
    B("c07.1-twin", "C07", ADF, "port_to.cmd.addr.eq(cmd_addr*ratio + cmd_count),", "port_to.cmd.addr.eq(cmd_count + ratio*cmd_addr),"),
    M("c07.2-lane-bits", "C07", "C07.2", ADF, "NextValue(sel, 1 << port_from.cmd.addr[:log2_int(ratio)]),", "NextValue(sel, 1 << port_from.cmd.addr[:log2_int(ratio) - 1]),"),
    M("c07.2-wide-addr", "C07", "C07.2", ADF, "port_to.cmd.addr.eq(cmd_addr[log2_int(ratio):]),", "port_to.cmd.addr.eq(cmd_addr[log2_int(ratio) + 1:]),"),
    M("c07.2-mask-order", "C07", "C07.2", ADF, "                    for i in range(ratio)\n                ]", "                    for i in reversed(range(ratio))\n                ]"),
    M("c07.3-wb-sign", "C07", "C07.3", WBF, "addr_shift = -log2_int(wishbone_data_width//port_data_width)", "addr_shift = log2_int(wishbone_data_width//port_data_width)"),
    M("c07.3-av-sign", "C07", "C07.3", AVF, "addr_shift = -log2_int(avalon_data_width//port_data_width)", "addr_shift = log2_int(avalon_data_width//port_data_width)"),
    M("c07.4-lane-order", "C07", "C07.4", ADF, "\n                        | (port_from.cmd.valid & ((sel >> port_from.cmd.addr[:log2_int(ratio)]) != 0))),", "),"),
    B("c07.4-twin", "C07", ADF, "((sel >> port_from.cmd.addr[:log2_int(ratio)]) != 0)", "((sel & ~((1 << port_from.cmd.addr[:log2_int(ratio)]) - 1)) != 0)"),
    # ---- C15 ----
    M("c15.1-decoder-lane", "C15", "C15.1", ECF, "decoder.i.eq(sink.data[i*ecc_width_to:(i+1)*ecc_width_to]),", "decoder.i.eq(sink.data[(i+1)*ecc_width_to:(i+2)*ecc_width_to]),"),
    M("c15.1-enc-in", "C15", "C15.1", ECF, "encoder.i.eq(sink.data[i*ecc_width_from:(i+1)*ecc_width_from]),", "encoder.i.eq(sink.data[i*ecc_width_from:(i+1)*ecc_width_from - 1]),"),
    M("c15.1-flags", "C15", "C15.1", ECF, "self.ded[i].eq(decoder.ded)", "self.ded[i].eq(decoder.sec)"),
    M("c15.2-ded-on-sec", "C15", "C15.2", ECF, "If(ecc_rdata.ded != 0,\n                        ded_detected.eq(1),", "If(ecc_rdata.sec != 0,\n                        ded_detected.eq(1),"),
    M("c15.2-noclear", "C15", "C15.2", ECF, "                sec_errors.eq(0),\n                ded_errors.eq(0),", "                sec_errors.eq(0),"),
    M("c15.3-compare-prec", "C15", "C15.3", ECF, "!= (2**(ecc_width_from//8)-1)),", "!= (2**ecc_width_from//8-1)),"),
    M("c15.3-assign-narrow", "C15", "C15.3", ECF, ".eq(2**ecc_width_to//8-1)", ".eq(2**(ecc_width_to//8)-1)"),
    B("c15-twin-assign-wide", "C15", ECF, ".eq(2**ecc_width_to//8-1)", ".eq(2**(ecc_width_to//8 + 1)-1)"),
    # ---- C14 ----
    dict(id="c14.1-taps", prop="C14", ob="C14.1", expect="refuted", edits=[dict(file=BIF, old="data_gen = Generator(31, n_state=31, taps=[27, 30]) # PRBS31", new="data_gen = Generator(31, n_state=31, taps=[27, 29]) # PRBS31", nth=2)]),
    M("c14.2-ce-valid", "C14", "C14.2", BIF, "            dma.source.ready.eq(1),\n            If(dma.source.valid,\n                data_gen.ce.eq(1),", "            dma.source.ready.eq(1),\n            data_gen.ce.eq(1),\n            If(dma.source.valid,"),
    M("c14.3-errors", "C14", "C14.3", BIF, "                    NextValue(self.errors, self.errors + 1)\n                ),\n                If(data_counter == (self.length[ashift:] - 1),", "                    NextValue(self.errors, self.errors + 2)\n                ),\n                If(data_counter == (self.length[ashift:] - 1),"),
    M("c14.5-nodrain", "C14", "C14.5", BIF, "            If(~dma.fifo.source.valid,\n                NextState(\"DONE\"),\n            ),", "            NextState(\"DONE\"),"),
    # ---- C08 ----
    M("c08.1-swap-cd", "C08", "C08.1", ADF, "                cd_from = port_from.clock_domain,\n                cd_to   = port_to.clock_domain,\n                depth   = wdata_depth,", "                cd_from = port_to.clock_domain,\n                cd_to   = port_from.clock_domain,\n                depth   = wdata_depth,"),
    M("c08.2-no-we", "C08", "C08.2", ADF, 'layout  = [("data", data_width), ("we", data_width//8)],', 'layout  = [("data", data_width)],'),
    M("c08.1-shared-cdc", "C08", "C08.1", ADF, "self.submodules += stream.Pipeline(port_from.wdata, wdata_cdc, port_to.wdata)", "self.submodules += stream.Pipeline(port_from.wdata, cmd_cdc, port_to.wdata)"),
    M("c08.3-always-cdc", "C08", "C08.3", XBF, 'if clock_domain != "sys":\n            new_port = LiteDRAMNativePort(', 'if True:\n            new_port = LiteDRAMNativePort('),
    M("c08.3-renamer", "C08", "C08.3", XBF, "self.submodules += ClockDomainsRenamer(clock_domain)(\n                LiteDRAMNativePortConverter(new_port, port, reverse))", "self.submodules += LiteDRAMNativePortConverter(new_port, port, reverse)"),
    B("c08-twin-depth", "C08", XBF, "self.submodules += LiteDRAMNativePortCDC(new_port, port)", "self.submodules += LiteDRAMNativePortCDC(new_port, port, rdata_depth=32)"),
    B("c08-twin-kworder", "C08", ADF, "                cd_from = port_to.clock_domain,\n                cd_to   = port_from.clock_domain,\n                depth   = rdata_depth,", "                depth   = rdata_depth,\n                cd_to   = port_from.clock_domain,\n                cd_from = port_to.clock_domain,"),
    # ---- C17 ----
    M("c17.1-cl-entry", "C17", "C17.1", INF, "             7: 0b0110,", "             7: 0b0111,"),
    M("c17.1-ddr4-wr", "C17", "C17.1", INF, "            24: 0b0110,\n            22: 0b0111,", "            22: 0b0110,\n            24: 0b0111,"),
    M("c17.2-cwl-shift", "C17", "C17.2", INF, "        mr2 = (cwl-5) << 3", "        mr2 = (cwl-5) << 4"),
    M("c17.2-cl-bit", "C17", "C17.2", INF, "        mr0 |= ((cl_to_mr0[cl] >> 1) & 0b111) << 4\n        mr0 |= dll_reset << 8\n        mr0 |= wr_to_mr0[wr] << 9", "        mr0 |= ((cl_to_mr0[cl] >> 1) & 0b111) << 5\n        mr0 |= dll_reset << 8\n        mr0 |= wr_to_mr0[wr] << 9"),
    M("c17.2-wr-overlap", "C17", "C17.2", INF, "        mr0 |= wr_to_mr0[wr] << 9\n        return mr0", "        mr0 |= wr_to_mr0[wr] << 8\n        return mr0"),
    M("c17.2-ddr4-cl-msb", "C17", "C17.2", INF, "mr0 |= ((cl_to_mr0[cl] >> 4) & 0b1) << 12", "mr0 |= ((cl_to_mr0[cl] >> 4) & 0b1) << 13"),
    M("c17.3-ddr3-bl", "C17", "C17.3", INF, "def get_ddr3_phy_init_sequence(phy_settings, timing_settings):\n    cl  = phy_settings.cl\n    bl  = 8", "def get_ddr3_phy_init_sequence(phy_settings, timing_settings):\n    cl  = phy_settings.cl\n    bl  = 4"),
    M("c17.3-default-cl", "C17", "C17.3", COF, "        f_to_cl_cwl[1866e6] = (13, 9)", "        f_to_cl_cwl[1866e6] = (15, 9)"),
    M("c17.5-py-const", "C17", "C17.5", INF, 'r += "dfii_command_ras    = 0x08\\n"', 'r += "dfii_command_ras    = 0x04\\n"'),
    M("c17.5-c-const", "C17", "C17.5", INF, 'r.define("DFII_COMMAND_WE",     "0x02")', 'r.define("DFII_COMMAND_WE",     "0x04")'),
    M("c17.5-csr-order", "C17", "C17.5", DFF, '            CSRField("cs",   size=1, description="DFI chip select bus"),\n            CSRField("we",   size=1, description="DFI write enable bus"),', '            CSRField("we",   size=1, description="DFI write enable bus"),\n            CSRField("cs",   size=1, description="DFI chip select bus"),'),
    M("c17.5-mask-differs", "C17", "C17.5", INF, "                invert_masks.append((0b10101111111000, 0b1111))\n\n        for a_inv, ba_inv in invert_masks:\n            r +=", "                invert_masks.append((0b10101111111000, 0b0111))\n\n        for a_inv, ba_inv in invert_masks:\n            r +="),
    # ---- C18 ----
    M("c18.1-hoist", "C18", "C18.1", DFF, "                ).Else(\n                    self.slave.connect(self.master),", "                ).Else(\n                    self.master.p0.cke.eq(self.slave.p0.cke),"),
    M("c18.1-cs-broadcast", "C18", "C18.1", DFF, "        for i in range(nranks):\n", "        if is_clam_shell:\n            self.comb += If(~self.ext_dfi_sel, [self.master.phases[i].cs_n.eq(Replicate(self.slave.phases[i].cs_n, 2)) for i in range(nphases)])\n        for i in range(nranks):\n"),
    M("c18.1-omit", "C18", "C18.1", DFF, "self.slave.connect(self.master),", 'self.slave.connect(self.master, omit={"p0"}),'),
    M("c18.2-data-map", "C18", "C18.2", DIF, "                for j in range(ratio):\n                    phase_m = self.dfi.phases[pi*ratio + j]\n                    sigs_m.append(getattr(phase_m, name))\n\n                width = len(Cat(sigs_m))", "                for j in range(ratio):\n                    phase_m = self.dfi.phases[pi + ratio*j]\n                    sigs_m.append(getattr(phase_m, name))\n\n                width = len(Cat(sigs_m))"),
    M("c18.2-cmd-map", "C18", "C18.2", DIF, "phase_m = self.dfi.phases[pi + len(phy_dfi.phases)*j]", "phase_m = self.dfi.phases[pi*ratio + j]"),
    M("c18.3-latency", "C18", "C18.3", UTF, "    LATENCY = 2\n", "    LATENCY = 1\n"),
    M("c18.3-noreg", "C18", "C18.3", UTF, "def __init__(self, clkdiv, clk, i_dw, o_dw, i=None, o=None, reset=None, register=True,", "def __init__(self, clkdiv, clk, i_dw, o_dw, i=None, o=None, reset=None, register=False,"),
    M("c18.4-rd-window", "C18", "C18.4", DIF, "sig_m_window = sig_m[read_delay*out_width:(read_delay + 1)*out_width]", "sig_m_window = sig_m[read_delay*out_width:(read_delay + 1)*out_width - 1]"),
    M("c18.4-valid-cycle", "C18", "C18.4", DIF, "Replicate(sig_m[read_delay], ratio)", "Replicate(sig_m[0], ratio)"),
    # ---- C19 ----
    M("c19.1-act-we", "C19", "C19.1", MOF, "self.activate.eq(phase.we_n),\n                self.precharge.eq(~phase.we_n)", "self.activate.eq(~phase.we_n),\n                self.precharge.eq(phase.we_n)"),
    M("c19.1-no-a10", "C19", "C19.1", MOF, "bank.precharge.eq((phase.bank == nb) | phase.address[10])", "bank.precharge.eq(phase.bank == nb)"),
    M("c19.1-bank-sel", "C19", "C19.1", MOF, "bank.read.eq(phase.bank == nb),", "bank.read.eq(1),"),
    M("c19.2-addr", "C19", "C19.2", MOF, "rdaddr.eq((row*ncols | self.read_col)[log2_int(burst_length*nphases):]),", "rdaddr.eq((row*ncols | self.read_col)[log2_int(burst_length):]),"),
    M("c19.3-mask", "C19", "C19.3", MOF, "Replicate(self.write, data_width//8) & ~self.write_mask", "Replicate(self.write, data_width//8) & self.write_mask"),
    M("c19.4-read-stage", "C19", "C19.4", MOF, "        for i in range(self.settings.read_latency):\n            new_banks_read      = Signal()", "        for i in range(self.settings.read_latency - 1):\n            new_banks_read      = Signal()"),
    M("c19.4-write-stage", "C19", "C19.4", MOF, "            for i in range(self.settings.write_latency):", "            for i in range(self.settings.write_latency + 1):"),
    M("c19.5-rbc", "C19", "C19.5", MOF, "start = (row*nbanks*model_column_size + bank*model_column_size)", "start = (row*nbanks*model_column_size + bank*column_size)"),
    M("c19.5-memlen", "C19", "C19.5", MOF, "bank_mem_len   = nrows*ncols//(burst_length*nphases)", "bank_mem_len   = nrows*ncols//burst_length"),
    # ---- C20 ----
    M("c20.1-table", "C20", "C20.1", L4F, '"PRECHARGE":    ["L L L L H AB",', '"PRECHARGE":    ["L L L H H AB",'),
    M("c20.1-act-rows", "C20", "C20.1", L4F, '"ACTIVATE-2":   ["H H R6 R7 R8 R9",     "R0 R1 R2 R3 R4 R5"],', '"ACTIVATE-2":   ["H H R6 R7 R8 R9",     "R1 R0 R2 R3 R4 R5"],'),
    M("c20.1-slot", "C20", "C20.1", L4F, '_cmd["PRE"]: cmds("DESELECT",   "PRECHARGE"),', '_cmd["PRE"]: cmds("PRECHARGE",   "DESELECT"),'),
    M("c20.1-ap", "C20", "C20.1", L4F, '"AP":       lambda: self.dfi.address[10],  # auto precharge', '"AP":       lambda: self.dfi.address[11],  # auto precharge'),
    M("c20.1-mrw-ma", "C20", "C20.1", L4F, "mr_address = self.dfi.bank if is_mrw else self.dfi.address", "mr_address = self.dfi.address"),
    M("c20.2-sim-const", "C20", "C20.2", L4S, "cond = self.cs_high[:5] == 0b10000,", "cond = self.cs_high[:5] == 0b10001,"),
    M("c20.3-col-offset", "C20", "C20.3", L5F, "lambda i: self.dfi.address[i + 4],", "lambda i: self.dfi.address[i + 3],"),
    M("c20.3-map", "C20", "C20.3", L5F, 'CMD["REF"]: cmds("REF"),', 'CMD["REF"]: cmds("PRE"),'),
    M("c20.4-ca-slip", "C20", "C20.4", UTF, "ca_bs = ConstBitSlip(dw=ca_ser_width, slp=phase*ca_phase_slip, cycles=1)", "ca_bs = ConstBitSlip(dw=ca_ser_width, slp=phase*ca_phase_slip + 1, cycles=1)"),
    M("c20.4-window", "C20", "C20.4", UTF, "valids_hist[nphases+phase - n_previous:nphases+phase]", "valids_hist[nphases+phase - n_previous + 1:nphases+phase]"),
    B("c20-twin-rename", "C20", L5F, "        mpc_op = Signal(8)\n        self.comb += If(self.dfi.address == 0,\n            mpc_op.eq(MPC.ZQC_LATCH)\n        ).Else(\n            mpc_op.eq(self.dfi.address)\n        )\n        op = mpc_op if is_mpc else self.dfi.address", "        zq_op = Signal(8)\n        self.comb += If(self.dfi.address == 0,\n            zq_op.eq(MPC.ZQC_LATCH)\n        ).Else(\n            zq_op.eq(self.dfi.address)\n        )\n        op = zq_op if is_mpc else self.dfi.address"),
    # ---- C09 ----
    M("c09.1-gate-one-side", "C09", "C09.1", AXF, "w_buffer.source.ready.eq(port.wdata.ready & w_buffer_send),", "w_buffer.source.ready.eq(port.wdata.ready),"),
    M("c09.1-can-write", "C09", "C09.1", AXF, "self.comb += can_write.eq(w_buffer.level > w_buffer_level)", "self.comb += can_write.eq(w_buffer.level >= w_buffer_level)"),
    M("c09.2-b-on-push", "C09", "C09.2", AXF, "            If(w_buffer.source.valid &\n               w_buffer.source.last &\n               w_buffer.source.ready,", "            If(w_buffer.sink.valid &\n               w_buffer.sink.last &\n               w_buffer.sink.ready,"),
    M("c09.3-depth+1", "C09", "C09.3", AXF, "self.comb += can_read.eq(r_buffer_level != buffer_depth)", "self.comb += can_read.eq(r_buffer_level != (buffer_depth + 1))"),
    M("c09.3-id-pop", "C09", "C09.3", AXF, "id_buffer.source.ready.eq(axi.r.valid & axi.r.ready)", "id_buffer.source.ready.eq(axi.r.ready)"),
    M("c09.4-rmw-noreq", "C09", "C09.4", AXF, '            rmw_fsm.act("READ",\n                self.rmw_request.eq(1),', '            rmw_fsm.act("READ",'),
    M("c09.4-rmw-noblock", "C09", "C09.4", AXF, "            self.comb += If(self.rmw_request,\n                r_buffer_queue.eq(0),\n                can_read.eq(0)\n            )", "            self.comb += If(self.rmw_request,\n                r_buffer_queue.eq(0),\n            )"),
    M("c09.5-merge-pol", "C09", "C09.5", AXF, "(port.rdata.data & ~rmw_mask) | (axi.w.data & rmw_mask)", "(port.rdata.data & rmw_mask) | (axi.w.data & ~rmw_mask)"),
    B("c09.5-twin-order", "C09", AXF, "(port.rdata.data & ~rmw_mask) | (axi.w.data & rmw_mask)", "(rmw_mask & axi.w.data) | (~rmw_mask & port.rdata.data)"),
    M("c09.6-addr", "C09", "C09.6", AXF, "                port.cmd.we.eq(0),\n                port.cmd.addr.eq((ar.addr - base_address) >> ashift),", "                port.cmd.we.eq(0),\n                port.cmd.addr.eq(ar.addr >> ashift),"),
    # ---- C10 ----
    M("c10.1-ack-noabort", "C10", "C10.1", WBF, "            If(port.rdata.valid,\n                wishbone.ack.eq(wishbone.cyc & ~aborted),", "            If(port.rdata.valid,\n                wishbone.ack.eq(wishbone.cyc),"),
    M("c10.1-ack-stays", "C10", "C10.1", WBF, "                wishbone.ack.eq(wishbone.cyc & ~aborted),\n                NextState(\"CMD\")\n            ),", "                wishbone.ack.eq(wishbone.cyc & ~aborted),\n            ),"),
    M("c10.2-read-pending", "C10", "C10.2", WBF, "                    If(wr_valid,\n                        # Preserve write/read ordering by draining pending writes first.\n                        NextValue(wr_last, 1),\n                        NextState(\"WRITE_CMD\")\n                    ).Elif(rd_cache_hit,", "                    If(rd_cache_hit,"),
    M("c10.2-cache-addr", "C10", "C10.2", WBF, "NextValue(rd_cache_addr, rd_addr),", "NextValue(rd_cache_addr, wide_addr),"),
    M("c10.3-merge-lane", "C10", "C10.3", WBF, "wr_can_merge.eq(~wr_valid | ((wr_addr == wide_addr) & ((wr_sel & chunk_bit) == 0))),", "wr_can_merge.eq(~wr_valid | (wr_addr == wide_addr)),"),
    M("c10.3-we-lane", "C10", "C10.3", WBF, "wr_chunk_we[i*wishbone_sel_width:(i + 1)*wishbone_sel_width].eq(wishbone.sel),", "wr_chunk_we[:wishbone_sel_width].eq(wishbone.sel),"),
    M("c10.3-noclear", "C10", "C10.3", WBF, "                NextValue(wr_sel,   0),\n", ""),
    M("c10.4-offset", "C10", "C10.4", WBF, "offset  = base_address >> log2_int(port.data_width//8)", "offset  = base_address >> log2_int(port.data_width)"),
    # ---- C11 ----
    M("c11.1-count-1", "C11", "C11.1", AVF, "NextValue(cmd_ready_count, avalon.burstcount),", "NextValue(cmd_ready_count, avalon.burstcount - 1),"),
    M("c11.1-exit", "C11", "C11.1", AVF, "                If(burst_count == 1,\n                    NextState(\"START\")", "                If(burst_count == 2,\n                    NextState(\"START\")"),
    M("c11.1-rdvalid", "C11", "C11.1", AVF, "avalon.readdatavalid.eq(port.rdata.valid),", "avalon.readdatavalid.eq(port.rdata.valid | port.cmd.ready),"),
    M("c11.2-data-valid", "C11", "C11.2", AVF, "wdata_fifo.sink.valid.eq(avalon.write & ~avalon.waitrequest),", "wdata_fifo.sink.valid.eq(avalon.write),"),
    M("c11.2-waitreq", "C11", "C11.2", AVF, "avalon.waitrequest.eq(~(cmd_fifo.sink.ready & wdata_fifo.sink.ready)),", "avalon.waitrequest.eq(~cmd_fifo.sink.ready),"),
    M("c11.2-cmd-nodata", "C11", "C11.2", AVF, "port.cmd.valid.eq(cmd_fifo.source.valid & (0 < wdata_fifo.level)),", "port.cmd.valid.eq(cmd_fifo.source.valid),"),
    M("c11.2-exit-gap", "C11", "C11.2", AVF, "If((burst_count == 0) & (cmd_fifo.level == 0) & (wdata_fifo.level == 1) & port.wdata.ready,", "If((cmd_fifo.level == 0) & (wdata_fifo.level == 1) & port.wdata.ready,"),
    M("c11.3-latch", "C11", "C11.3", AVF, "                writedata.eq(avalon.writedata),\n", ""),
    M("c11.4-offset", "C11", "C11.4", AVF, "address.eq(avalon.address - address_offset),", "address.eq(avalon.address),"),
    # ---- C13 ----
    M("c13.1-writable", "C13", "C13.1", FFF, "self.writable.eq(self.level < depth),", "self.writable.eq(self.level <= depth),"),
    M("c13.1-write-strobe", "C13", "C13.1", FFF, "            If(writer.sink.valid & writer.sink.ready,\n                sink.ready.eq(1),\n                ctrl.write.eq(1)\n            ),", "            If(writer.sink.valid,\n                sink.ready.eq(writer.sink.ready),\n                ctrl.write.eq(1)\n            ),"),
    M("c13.1-wrap", "C13", "C13.1", FFF, "        return If(signal == (modulo - 1),", "        return If(signal == modulo,"),
    M("c13.1-level", "C13", "C13.1", FFF, "self.level.eq(self.level + self.write - self.read),", "self.level.eq(self.level + self.write),"),
    M("c13.1-addr", "C13", "C13.1", FFF, "reader.sink.address.eq(ctrl.base + ctrl.read_address),", "reader.sink.address.eq(ctrl.base + ctrl.write_address),"),
    M("c13.1-readable", "C13", "C13.1", FFF, "reader.sink.valid.eq(ctrl.readable),", "reader.sink.valid.eq(1),"),
    M("c13.3-bypass-state", "C13", "C13.3", FFF, "                # Store in DRAM.\n                dram_store.eq(1),", "                # Store in DRAM.\n                dram_store.eq(1),\n                dram_bypass.eq(dram_first),"),
    M("c13.3-both-sources", "C13", "C13.3", FFF, "                post_converter.source.connect(post_fifo.sink)\n            ),", "            ),\n            post_converter.source.connect(post_fifo.sink),"),
    # ---- clauses added in the third wave (the reviewers' patches of that wave were lost with /tmp; these re-create the mechanisms) ----
    M("c04.9-wrong-done", "C04", "C04.9", RFF, "                If(zqcs_executer.done,\n                    cmd.valid.eq(0),", "                If(sequencer.done,\n                    cmd.valid.eq(0),"),
    M("c07.2-lane-novalid", "C07", "C07.2", ADF, "                If(port_from.cmd.valid,\n                    NextValue(sel, sel | 1 << port_from.cmd.addr[:log2_int(ratio)])\n                )", "                NextValue(sel, sel | 1 << port_from.cmd.addr[:log2_int(ratio)])"),
    M("c07.5-conv-domain", "C07", ["C07.5", "C08.3"], XBF, "            self.submodules += ClockDomainsRenamer(clock_domain)(\n                LiteDRAMNativePortConverter(new_port, port, reverse))", "            self.submodules += LiteDRAMNativePortConverter(new_port, port, reverse)"),
    M("c09.10-w-range", "C09", "C09.10", AXF, "w_buffer_level   = Signal(max=buffer_depth + 2)", "w_buffer_level   = Signal(max=buffer_depth)"),
    M("c09.10-w-range-f17", "C09", "C09.10", AXF, "w_buffer_level   = Signal(max=buffer_depth + 2)", "w_buffer_level   = Signal(max=buffer_depth + 1)"),   # re-introduces F17
    M("c09.10-r-range", "C09", "C09.10", AXF, "r_buffer_level   = Signal(max=buffer_depth + 1)", "r_buffer_level   = Signal(max=buffer_depth)"),
    M("c09.11-exit-pairing", "C09", "C09.11", AXF, "If((port.cmd.ready | rmw_cmd_done) & (w_buffer.sink.ready | rmw_data_done),", "If((port.cmd.ready | rmw_data_done) & (w_buffer.sink.ready | rmw_cmd_done),"),
    M("c10.1-readcmd-drop", "C10", "C10.1", WBF, "        fsm.act(\"READ_CMD\",\n            If(~wishbone.cyc,\n                NextState(\"CMD\")\n            ).Else(\n                port.cmd.valid.eq(1),\n                port.cmd.we.eq(0),\n                port.cmd.addr.eq(rd_addr),\n                port.cmd.last.eq(rd_last),\n                If(port.cmd.ready,\n                    NextState(\"READ_DATA\")\n                )\n            )\n        )", "        fsm.act(\"READ_CMD\",\n            port.cmd.valid.eq(1),\n            port.cmd.we.eq(0),\n            port.cmd.addr.eq(rd_addr),\n            port.cmd.last.eq(rd_last),\n            If(port.cmd.ready,\n                NextState(\"READ_DATA\")\n            )\n        )"),
    M("c12.3-connect-valid", "C12", "C12.3", DMF, "fifo.source.connect(source, omit={\"valid\", \"ready\", \"last\"}),", "fifo.source.connect(source, omit={\"ready\", \"last\"}),"),
    M("c15.4-we-whole", "C15", "C15.4", ECF, "If(sink.we[i*ecc_width_from//8:(i+1)*ecc_width_from//8] != 0,", "If(sink.we != 0,"),
    M("c15.5-halves", "C15", "C15.5", ECF, "ecc_rdata = LiteDRAMNativePortECCR(port_from.data_width, port_to.data_width, burst_cycles)", "ecc_rdata = LiteDRAMNativePortECCR(port_from.data_width, port_to.data_width)"),
    M("c10.3-free-bytes", "C10", "C10.3", WBF, "wr_can_merge.eq(~wr_valid | ((wr_addr == wide_addr) & ((wr_sel & chunk_bit) == 0))),", "wr_can_merge.eq(~wr_valid | ((wr_addr == wide_addr) & ((wr_we & wr_chunk_we) == 0))),"),
    # a property-preserving optimisation (next user command taken while the last sub-command is accepted, all three registers reloaded): must HOLD
    B("c07.1-twin-back-to-back", "C07", ADF, "                If(cmd_count == (ratio - 1),\n                    NextState(\"IDLE\")\n                )", "                If(cmd_count == (ratio - 1),\n                    port_from.cmd.ready.eq(1),\n                    If(port_from.cmd.valid,\n                        NextValue(cmd_count, 0),\n                        NextValue(cmd_addr,  port_from.cmd.addr),\n                        NextValue(cmd_we,    port_from.cmd.we)\n                    ).Else(\n                        NextState(\"IDLE\")\n                    )\n                )"),
    M("c07.1-b2b-stale-count", "C07", "C07.1", ADF, "                If(cmd_count == (ratio - 1),\n                    NextState(\"IDLE\")\n                )", "                If(cmd_count == (ratio - 1),\n                    port_from.cmd.ready.eq(1),\n                    If(port_from.cmd.valid,\n                        NextValue(cmd_addr,  port_from.cmd.addr),\n                        NextValue(cmd_we,    port_from.cmd.we)\n                    ).Else(\n                        NextState(\"IDLE\")\n                    )\n                )"),
    M("c07.1-accept-early", "C07", "C07.1", ADF, "                If(cmd_count == (ratio - 1),\n                    NextState(\"IDLE\")\n                )", "                port_from.cmd.ready.eq(1),\n                If(port_from.cmd.valid,\n                    NextValue(cmd_count, 0),\n                    NextValue(cmd_addr,  port_from.cmd.addr),\n                    NextValue(cmd_we,    port_from.cmd.we)\n                ).Elif(cmd_count == (ratio - 1),\n                    NextState(\"IDLE\")\n                )"),
    # read-only ports left out of the write-data multiplexer, arms re-indexed consistently: property-preserving, must HOLD; the broken variant
    # (keys still the index among ALL masters) is seeded change C01_5
    B("c01.3-twin-writers-only", "C01", XBF, "        wdata_cases = {}\n        for nm, master in enumerate(self.masters):\n            wdata_cases[2**nm] = [", "        wdata_masters = [nm for nm, master in enumerate(self.masters) if master.mode != \"read\"]\n        wdata_cases = {}\n        for j, nm in enumerate(wdata_masters):\n            master = self.masters[nm]\n            wdata_cases[2**j] = [",
      more=[{"file": XBF, "old": "self.comb += Case(Cat(*master_wdata_readys), wdata_cases)", "new": "self.comb += Case(Cat(*[master_wdata_readys[nm] for nm in wdata_masters]), wdata_cases)"}]),
    M("c09.8-no-read-drain", "C09", "C09.8", AXF, "If(self.rmw_rgrant & self.rmw_wgrant,", "If(self.rmw_wgrant,"),
    M("c09.8-rgrant-weak", "C09", "C09.8", AXF, "self.comb += self.rmw_rgrant.eq(~r_buffer_queue & (r_buffer_level == 0))", "self.comb += self.rmw_rgrant.eq(~r_buffer_queue)"),
    B("c09.8-twin-renamed-grant", "C09", AXF, "self.rmw_wgrant", "self.rmw_write_idle", count=9),
    B("c08.1-twin-connects", "C08", ADF, "            self.submodules += stream.Pipeline(port_to.rdata, rdata_cdc, port_from.rdata)", "            self.comb += [port_to.rdata.connect(rdata_cdc.sink), rdata_cdc.source.connect(port_from.rdata)]"),
    M("c20.4-ca-unmasked", "C20", "C20.4", UTF, "self.comb += ca_bs.i.eq(Cat(*ca_bit_hist) & ca_mask),", "self.comb += ca_bs.i.eq(Cat(*ca_bit_hist)),"),
    M("c17.7-wrapper-cl", "C17", "C17.7", "litedram/phy/gensdrphy.py", "full_rate_phy = GENSDRPHY(pads, 2*sys_clk_freq, cl)", "full_rate_phy = GENSDRPHY(pads, 2*sys_clk_freq)"),
    M("c06.1-narrow-col-wire", "C06", "C06.1", BMF, "cmd.a.eq((auto_precharge << 10) | slicer.col(cmd_buffer.source.addr))", "cmd.a.eq((auto_precharge << 10) | cmd_col)",
      more=[{"file": BMF, "old": "        # Row tracking ---", "new": "        cmd_col = Signal(settings.geom.colbits)\n        self.comb += cmd_col.eq(slicer.col(cmd_buffer.source.addr))\n        # Row tracking ---"}]),
    B("c06.1-twin-wide-col-wire", "C06", BMF, "cmd.a.eq((auto_precharge << 10) | slicer.col(cmd_buffer.source.addr))", "cmd.a.eq((auto_precharge << 10) | cmd_col)",
      more=[{"file": BMF, "old": "        # Row tracking ---", "new": "        cmd_col = Signal(settings.geom.colbits + 1)\n        self.comb += cmd_col.eq(slicer.col(cmd_buffer.source.addr))\n        # Row tracking ---"}]),
    # a register stage behind the command crossing: fine when clocked by the controller side, a clock-domain bug when clocked by the user side
    B("c08.1-twin-buffer-after-cdc", "C08", ADF, "        self.submodules += stream.Pipeline(port_from.cmd, cmd_cdc, port_to.cmd)", "        cmd_buf = ClockDomainsRenamer(port_to.clock_domain)(stream.Buffer([(\"we\", 1), (\"addr\", address_width)]))\n        self.submodules += cmd_buf\n        self.submodules += stream.Pipeline(port_from.cmd, cmd_cdc, cmd_buf, port_to.cmd)"),
    M("c08.1-buffer-wrong-domain", "C08", "C08.1", ADF, "        self.submodules += stream.Pipeline(port_from.cmd, cmd_cdc, port_to.cmd)", "        cmd_buf = ClockDomainsRenamer(port_from.clock_domain)(stream.Buffer([(\"we\", 1), (\"addr\", address_width)]))\n        self.submodules += cmd_buf\n        self.submodules += stream.Pipeline(port_from.cmd, cmd_cdc, cmd_buf, port_to.cmd)"),
    M("c08.6-depth-halved", "C08", "C08.6", ADF, "            depth   = cmd_depth,", "            depth   = max(2, cmd_depth//2),"),
    M("c20.6-span", "C20", "C20.6", "litedram/phy/lpddr4/basephy.py", "            cmd_nphases_span = 4,", "            cmd_nphases_span = 2,"),
    M("c20.6-adapter-order", "C20", "C20.6", "litedram/phy/lpddr4/basephy.py", "adapters = [DFIPhaseAdapter(phase, masked_write=masked_write) for phase in self.dfi.phases]", "adapters = [DFIPhaseAdapter(phase, masked_write=masked_write) for phase in reversed(self.dfi.phases)]"),
    M("c20.6-pad-lines", "C20", "C20.6", "litedram/phy/lpddr4/basephy.py", "            self.comb += self.out.ca[bit].eq(self.commands.ca[bit])", "            self.comb += self.out.ca[bit].eq(self.commands.ca[5 - bit])"),
    M("c20.7-pad-priority", "C20", "C20.7", "litedram/phy/lpddr5/basephy.py", "            return If(cmd_buf.source.valid, # cmd2 stored in the previous cycle\n                out.eq(cmd2)\n            ).Elif(self.adapter.valid, # cmd1 on DFI (note: there is no cmd2 from prev cycle)\n                out.eq(cmd1)", "            return If(self.adapter.valid,\n                out.eq(cmd1)\n            ).Elif(cmd_buf.source.valid,\n                out.eq(cmd2)"),
    M("c20.7-payload", "C20", "C20.7", "litedram/phy/lpddr5/basephy.py", "cmd_buf.sink.ca_n.eq(self.adapter.cmd2.ca[1]),", "cmd_buf.sink.ca_n.eq(self.adapter.cmd2.ca[0]),"),
]
