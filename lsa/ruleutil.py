"""Helpers shared by the rule modules: cached elaboration, definition expansion, role discovery."""
import os
from .elab import elaborate, eval_function, Elab
from .values import *
from .term import as_disj, key, conj, disj, literal, lkey, litset, support, lin, lin_eq, lin_diff, lin_ge, Lin, subterms, resolve_phi
from .report import AnalysisError

_cache = {}


def elab(ctx, mod, cls, args=None, kwargs=None, overrides=None, hasattrs=None, calls=(), opaque=()):
    ck = (id(ctx.repo), mod, cls, repr(args), repr(sorted((kwargs or {}).items(), key=str)), repr(sorted((overrides or {}).items(), key=str)),
          repr(sorted((hasattrs or {}).items())), repr(calls), repr(sorted(opaque)))
    if ck in _cache:
        return _cache[ck]
    if ctx.repo.module(mod) is None:
        raise AnalysisError(ctx.prop, "anchor module %s vanished" % mod)
    try:
        d, el = elaborate(ctx.repo, mod, cls, args, kwargs, overrides, hasattrs, calls, opaque)
    except KeyError as e:
        raise AnalysisError(ctx.prop, "anchor vanished: %s" % e)
    except Exception as e:
        if type(e).__name__ == "Budget":
            raise AnalysisError(ctx.prop, "%s.%s: %s - the generator does too much plain-Python work at elaboration time for this analyser" % (mod, cls, e))
        raise
    ctx.stat("classes_elaborated")
    ctx.stat("leaves", len(d.all_leaves()))
    ctx.stat("fsm_states", sum(len(f.states) for f in d.fsms.values()))
    ctx.stat("interp_steps", el.steps)
    v = View(d)
    _cache[ck] = v
    return v


def cfg_ok(leaf_cfg, assume):
    """False if the leaf's configuration context contradicts `assume` {cond key: bool}."""
    for k, pol, _ in leaf_cfg:
        if k in assume and assume[k] != pol:
            return False
    return True


class View:
    """A design plus indices; `assume` restricts to one configuration variant."""

    def __init__(self, design, assume=None):
        self.d = design
        self.assume = dict(assume or {})
        self._index()

    def _index(self):
        self.leaves = [l for l in self.d.all_leaves() if cfg_ok(l.cfg, self.assume)]
        self.defs = {}
        for l in self.leaves:
            if l.kind in ("assign", "nextvalue") and l.target is not None:
                self.defs.setdefault(key(l.target), []).append(l)
        if not os.environ.get("LSA_NO_INLINE"):
            self._inline_aliases()

    def _inline_aliases(self):
        alias = {}
        for k, ds in self.defs.items():
            if len(ds) != 1 or "." in k:
                continue
            l = ds[0]
            if l.kind != "assign" or l.domain != "comb" or l.guards or l.fsm is not None or l.quants or l.inst != "":
                continue
            if not (isinstance(l.target, Obj) and l.target.cls == "Signal"):
                continue
            # a wire narrower than the value it carries truncates: keep that visible (Op "trunc") instead of silently widening the design
            alias[k] = l.value if fits(l.target, l.value) is not False else Op("trunc", (l.value, twidth(l.target)[0]))

        def sub(t, dep=0):
            if dep > 8:
                return t
            if isinstance(t, Obj):
                v = alias.get(key(t))
                return sub(v, dep + 1) if v is not None else t
            if isinstance(t, Op):
                return Op(t.op, tuple(sub(a, dep) for a in t.args))
            return t
        import copy
        new = []
        self._copy = {}
        for l in self.d.all_leaves():
            m = copy.copy(l)
            self._copy[id(l)] = m
            m.guards = tuple((sub(c), p) for c, p in l.guards)
            if l.value is not None and l.kind in ("assign", "nextvalue"):
                m.value = sub(l.value)
            if cfg_ok(l.cfg, self.assume):
                new.append(m)
        self.leaves = new
        self.aliases = alias
        self.defs = {}
        for l in self.leaves:
            if l.kind in ("assign", "nextvalue") and l.target is not None:
                self.defs.setdefault(key(l.target), []).append(l)

    def variant(self, **assume):
        a = dict(self.assume)
        a.update(assume)
        return View(self.d, a)

    def variant_map(self, assume):
        a = dict(self.assume)
        a.update(assume)
        return View(self.d, a)

    def cfgkeys(self):
        ks = []
        for l in self.d.all_leaves():
            for k, _, _ in l.cfg:
                if k not in ks:
                    ks.append(k)
        return ks

    @property
    def top(self):
        return self.d.top

    def attr(self, name):
        return self.d.top.attrs.get(name)

    def instances_of(self, clsname):
        return [o for p, o in self.d.instances.items() if o.cls == clsname and not o.meta.get("dead")]

    def fsms(self, inst=""):
        return [f for f in self.d.fsms.values() if f.inst == inst]

    def fsm_leaves(self, f, state=None):
        ls = f.leaves(state)
        cp = getattr(self, "_copy", None)
        if cp:
            ls = [cp.get(id(l), l) for l in ls]
        return [l for l in ls if cfg_ok(l.cfg, self.assume)]

    def drivers(self, t):
        return list(self.defs.get(key(t) if not isinstance(t, str) else t, []))

    def single_comb_def(self, atom):
        """The defining value of a signal with exactly one unconditional comb assignment, else None."""
        ds = self.defs.get(key(atom))
        if not ds or len(ds) != 1:
            return None
        l = ds[0]
        if l.kind != "assign" or l.domain != "comb" or l.guards or l.fsm is not None or l.quants:
            return None
        return l.value

    def expand(self, lits, depth=8):
        """Close a literal list under definition expansion (single unconditional comb definitions)."""
        out = []
        seen = set()
        work = [(a, p, 0) for a, p in lits]
        while work:
            a, p, dep = work.pop()
            k = lkey((a, p))
            if k in seen:
                continue
            seen.add(k)
            out.append((a, p))
            if dep >= depth:
                continue
            if isinstance(a, (Obj, Sym)):
                v = self.single_comb_def(a)
                if v is not None:
                    for b, q in conj(v, p):
                        # conj(v, False) of a conjunction yields a single negated literal: only keep
                        # expansions that are sound as conjuncts
                        work.append((b, q, dep + 1))
        return out

    def guard_lits(self, leaf, expand=True):
        lits = []
        for c, p in leaf.guards:
            lits.extend(conj(c, p))
        return self.expand(lits) if expand else lits

    def guard_keys(self, leaf, expand=True):
        return litset(self.guard_lits(leaf, expand))

    def value_conj_keys(self, t, expand=True):
        lits = conj(t)
        return litset(self.expand(lits) if expand else lits)

    def asserted(self, leaves, target, value=1):
        """Leaves assigning constant `value` to `target`."""
        tk = key(target) if not isinstance(target, str) else target
        r = []
        for l in leaves:
            if l.kind == "assign" and key(l.target) == tk and isinstance(l.value, Const) and l.value.v == value \
                    and not isinstance(l.value.v, bool) or (l.kind == "assign" and key(l.target) == tk and isinstance(l.value, Const)
                                                           and isinstance(l.value.v, bool) and int(l.value.v) == value):
                r.append(l)
            elif value == 1 and l.kind == "assign" and key(l.target) == tk and isinstance(l.value, (Op, Obj, Sym)) and _one_bit(l.target) and not l.quants:
                # value form `x.eq(c)` of a 1-bit signal == guard form `If(c, x.eq(1))`
                import copy as _c
                m = _c.copy(l)
                m.guards = tuple(l.guards) + tuple(conj(l.value))
                m.value = Const(1)
                r.append(m)
        return r


def is1(v):
    return isinstance(v, Const) and isinstance(v.v, (int, bool)) and int(v.v) == 1


def is0(v):
    return isinstance(v, Const) and isinstance(v.v, (int, bool)) and int(v.v) == 0


def loc_of(leaf):
    return leaf.loc


def sup_has(t, *names):
    s = support(t)
    return all(any(x == n or x.endswith("." + n) for x in s) for n in names)


def fsm_graph(view, f):
    """-> (states incl. delayed names, edges [(src, dst, guard_keys, leaf)], delayed {name: (target, delay)})"""
    edges = []
    for s in f.states:
        for l in view.fsm_leaves(f, s):
            if l.kind == "next":
                dst = l.value.v if isinstance(l.value, Const) else str(l.value)
                edges.append((s, dst, l))
    delayed = {}
    for nm, target, delay, cfg, loc in f.delayed:
        if cfg_ok(cfg, view.assume):
            delayed[nm] = (target, delay, loc)
    return edges, delayed


def simple_paths(edges_by_src, src, targets, avoid=(), limit=200):
    """All simple paths (as lists of nodes) from src to any node in targets."""
    out = []

    def rec(n, path):
        if len(out) > limit:
            return
        for dst in edges_by_src.get(n, []):
            if dst in avoid or dst in path:
                continue
            if dst in targets:
                out.append(path + [dst])
                continue
            rec(dst, path + [dst])
    rec(src, [src])
    return out


def prim_keys(view, lits):
    """Expand literals through single comb definitions and keep only the primitive ones (no definition)."""
    out = set()
    for a, p in view.expand(lits):
        if isinstance(a, (Obj, Sym)) and view.single_comb_def(a) is not None:
            continue
        out.add(lkey((a, p)))
    return out


def fire_keys(view, ep):
    """Primitive conjunct set of  ep.valid & ep.ready."""
    k = ep if isinstance(ep, str) else key(ep)
    return prim_keys(view, [(Sym(k + ".valid"), True), (Sym(k + ".ready"), True)])


def value_prim_keys(view, t):
    return prim_keys(view, conj(t))


def find_connect(view, src=None, dst=None):
    r = []
    for l in view.leaves:
        if l.kind == "connect":
            if (src is None or key(l.value) == src) and (dst is None or key(l.target) == dst):
                r.append(l)
    return r


def eval3(t, env):
    """Three-valued evaluation of a boolean term under partial knowledge env {key: bool}; None = unknown."""
    a, p = literal(t)
    k = key(a)
    if k in env:
        v = env[k]
        return v if p else (not v)
    if isinstance(a, Const) and isinstance(a.v, (int, bool)):
        v = bool(a.v)
        return v if p else (not v)
    if isinstance(a, Op) and a.op in ("&", "and"):
        vals = [eval3(x, env) for x in a.args]
        r = False if any(v is False for v in vals) else (True if all(v is True for v in vals) else None)
    elif isinstance(a, Op) and a.op in ("|", "or"):
        vals = [eval3(x, env) for x in a.args]
        r = True if any(v is True for v in vals) else (False if all(v is False for v in vals) else None)
    else:
        r = None
    if r is None:
        return None
    return r if p else (not r)


def leaf_fires(view, leaf, env):
    """True / False / None: does the leaf's guard hold under env?"""
    res = True
    for c, p in leaf.guards:
        v = eval3(c, env)
        if v is None:
            res = None if res is not False else False
        elif v != p:
            return False
    return res


def is_pulse(view, sig, depth=0, seen=None):
    """Is `sig` provably self-clearing (high for one cycle only, regardless of its consumers)?
    (a) register with an unconditional default-0 assignment followed by conditional sets;
    (b) comb conjunction containing a pulse;
    (c) comb test `C == 0` of a counter C that is reloaded (to a non-zero value) by a leaf that
        definitely fires whenever the test is true."""
    seen = seen or set()
    k = key(sig)
    if k in seen or depth > 6:
        return False
    seen = seen | {k}
    ds = view.drivers(sig)
    if not ds:
        return False
    if all(d.domain.startswith("sync") for d in ds):
        zero_default = [d for d in ds if is0(d.value) and not d.guards]
        if zero_default and all(d.order >= zero_default[0].order for d in ds):
            return True
        # timeline-driven done flags: default 0 each cycle, set inside a timeline event
        return False
    v = view.single_comb_def(sig)
    if v is None:
        return False
    for a, p in conj(v):
        if p and isinstance(a, (Obj, Sym)) and is_pulse(view, a, depth + 1, seen):
            return True
    lits = conj(v)
    if len(lits) == 1:
        a, p = lits[0]
        # literal() turns C == 0 into (C, False)
        if (not p) and isinstance(a, (Obj, Sym)):
            env = {k: True, key(a): False}
            # propagate aliases: any signal whose single comb def is `sig`
            for kk, dd in view.defs.items():
                if len(dd) == 1 and dd[0].domain == "comb" and not dd[0].guards and key(dd[0].value) == k:
                    env[kk] = True
            for d in view.drivers(a):
                if d.domain.startswith("sync") and leaf_fires(view, d, env) is True:
                    l = lin(d.value)
                    if l is not None and not (l.is_const() and l.constval() == 0) and key(a) not in support_keys(d.value):
                        return True
    return False


def support_keys(t):
    return {s for s in support(t)}


def pobj(name, cls="object"):
    """An opaque, certainly-not-None parameter object: attribute reads give Sym('<name>.<attr>')."""
    o = Obj(cls, kind="param")
    o.name = name
    o.provisional = False
    return o


def deref(v, t, depth=4):
    """Follow named wires to the expression they stand for (one unguarded, non-zero comb driver)."""
    while depth and isinstance(t, (Obj, Sym)) and "." not in key(t):
        ds = [d for d in v.drivers(t) if d.kind == "assign" and d.domain == "comb" and not d.guards and d.fsm is None and not is0(d.value)]
        if len(ds) != 1:
            break
        t = ds[0].value
        depth -= 1
    return t


def nkeys(v, lits):
    """Literal keys with named wires replaced by what they stand for (so a guard reads the same with or without intermediate signals)."""
    out = set()
    for a, p in lits:
        d = deref(v, a)
        if d is a:
            out.add(lkey((a, p)))
        else:
            out |= nkeys(v, conj(d, p))
    return out


def share(ctx, ob, prop, oids, cap=150):
    """Import obligations decided by another property's rule module into `ob` (one necessary condition relied upon by two properties)."""
    import importlib
    from .report import Ctx
    sub = Ctx(prop, ctx.tier, ctx.seed, ctx.repo)
    sub.shared_for = ctx.prop
    importlib.import_module("lsa.rules.%s" % prop.lower()).run(sub)
    for o in sub.obligations:
        if o.oid in oids:
            for i in o.instances[:cap]:
                ob.instance(o.oid + ": " + i["what"], i["detail"] or "ok")
            for r in o.refutations:
                ob.refute(o.oid + ":" + r["key"], r["msg"], r.get("loc"))
            for u in o.unknowns:
                ob.unknown(u)


# ---------------------------------------------------------------------------------------------------
# width inference (upper bounds) - used to keep alias inlining sound: a wire narrower than its value truncates
def twidth(t, depth=0):
    """Upper bound of the bit width of hardware term t as a list of alternative terms (the width is <= the max of
    them), or None when a leaf's width is not known statically."""
    if depth > 12:
        return None
    if isinstance(t, Const):
        if isinstance(t.v, bool):
            return [Const(1)]
        if isinstance(t.v, int) and t.v >= 0:
            return [Const(max(t.v.bit_length(), 1))]
        return None
    if isinstance(t, Obj):
        if t.cls != "Signal":
            return None
        if t.args:
            a = t.args[0]
            if isinstance(a, (ListV,)):
                return None
            return [a]
        if "max" in t.kwargs or "min" in t.kwargs or "bits_sign" in t.kwargs:
            mx = t.kwargs.get("max")
            if isinstance(mx, Const) and isinstance(mx.v, int) and "min" not in t.kwargs and mx.v > 0:
                return [Const(max((mx.v - 1).bit_length(), 1))]
            return None
        if isinstance(t.meta.get("like"), V):
            return twidth(t.meta["like"], depth + 1)
        return [Const(1)]
    if not isinstance(t, Op):
        return None
    o, a = t.op, t.args

    def add(ws, k):
        return [Op("+", (w, k)) for w in ws]

    def cross(lists, f):
        out = [None]
        for ws in lists:
            if ws is None:
                return None
            out = [(p, w) for p in out for w in ws]
            if len(out) > 16:
                return None
        res = []
        for tup in out:
            xs = []
            while tup is not None:
                tup, x = tup
                xs.append(x)
            res.append(f(list(reversed(xs))))
        return res
    if o in ("==", "!=", "<", "<=", ">", ">=", "not", "index", "and", "or"):
        return [Const(1)]
    if o in ("~", ">>", "trunc") and o != "trunc":
        return twidth(a[0], depth + 1)
    if o == "trunc":
        return [a[1]]
    if o == "&":
        ws = [twidth(x, depth + 1) for x in a]
        ws = [w for w in ws if w is not None]
        return min(ws, key=len) if ws else None
    if o in ("|", "^", "phi", "ifexp", "Mux", "+", "-"):
        xs = a[1:] if o in ("phi", "ifexp", "Mux") else a
        out = []
        for x in xs:
            w = twidth(x, depth + 1)
            if w is None:
                return None
            out.extend(w)
        # the carry of + / - is deliberately not counted: wrap-around arithmetic in a register of the operands' width is the normal idiom
        return out
    if o == "<<":
        if isinstance(a[1], Const) or (isinstance(a[1], (Sym, Op)) and not _has_signal(a[1])):
            w = twidth(a[0], depth + 1)
            return None if w is None else add(w, a[1])
        return None
    if o == "slice":
        lo = Const(0) if (isinstance(a[1], Const) and a[1].v is None) else a[1]
        if isinstance(lo, Const) and isinstance(lo.v, int) and lo.v < 0:
            return None
        if isinstance(a[2], Const) and a[2].v is None:
            w = twidth(a[0], depth + 1)
            return None if w is None else [Op("-", (x, lo)) for x in w]
        if isinstance(a[2], Const) and isinstance(a[2].v, int) and a[2].v < 0:
            return None
        return [Op("-", (a[2], lo))]
    if o == "Cat":
        def s(xs):
            r = xs[0]
            for x in xs[1:]:
                r = Op("+", (r, x))
            return r
        return cross([twidth(x, depth + 1) for x in a], s) if a else [Const(0)]
    if o == "Replicate":
        w = twidth(a[0], depth + 1)
        return None if w is None else [Op("*", (x, a[1])) for x in w]
    return None


def guard_form(view, leaf):
    """`x.eq(c)` and `If(c, x.eq(1))` are the same statement for a 1-bit signal with default 0: returns (guard literals incl. the value's conjuncts, True) when
    the leaf assigns a non-constant value to a 1-bit signal, else (its guard literals, False)."""
    lits = view.guard_lits(leaf, False)
    if leaf.kind == "assign" and isinstance(leaf.value, (Op, Obj, Sym)) and _one_bit(leaf.target):
        return lits + list(conj(leaf.value)), True
    return lits, False


def _one_bit(t):
    if isinstance(t, Obj) and t.cls == "Signal":
        w = twidth(t)
        return w is not None and len(w) == 1 and isinstance(w[0], Const) and w[0].v == 1
    k = key(t) if isinstance(t, (Sym, Op)) else ""
    return isinstance(t, (Sym, Op)) and k.rsplit(".", 1)[-1] in ("valid", "ready", "last", "first") and "[" not in k.rsplit(".", 1)[-1]


def _has_signal(t):
    return any(isinstance(x, Obj) and x.cls == "Signal" for x in subterms(t))


def fits(target, value):
    """False: the value is PROVABLY wider than the declared width of `target` in some configuration arm (the wire truncates: width difference is a
    positive constant); True: it provably fits; None: not comparable statically (symbolic widths of unrelated signals - e.g. a bus address narrowed to
    the memory's address width, which is the normal idiom - or an unknown leaf width)."""
    wv = twidth(value)
    if wv is None:
        return None
    wt = twidth(target)
    if wt is None or len(wt) != 1:
        return None
    res = [True if (isinstance(w, Const) and w.v == 1) else lin_ge(wt[0], w) for w in wv]      # every declared width is >= 1
    if any(r is False for r in res):
        return False
    return True if all(r is True for r in res) else None


# ---------------------------------------------------------------------------------------------------
# propositional reasoning over extracted guards: atoms = maximal non-boolean-connective subterms (signals, comparisons), keyed canonically
def expand_term(v, t_, depth=8):
    """term with every single-definition comb signal replaced by its definition (bounded)"""
    if depth == 0:
        return t_
    if isinstance(t_, Op):
        return Op(t_.op, tuple(expand_term(v, a_, depth) for a_ in t_.args))
    if isinstance(t_, (Obj, Sym)):
        d_ = v.single_comb_def(t_)
        if d_ is not None:
            return expand_term(v, d_, depth - 1)
    return t_


def bool_atoms(t, acc=None):
    acc = set() if acc is None else acc
    a, _ = literal(t)
    if isinstance(a, Op) and a.op in ("&", "|", "and", "or", "^"):
        for x in a.args:
            bool_atoms(x, acc)
    elif isinstance(a, Const):
        pass
    else:
        acc.add(key(a))
    return acc


def bool_val(t, env):
    a, p = literal(t)
    if isinstance(a, Op) and a.op in ("&", "and"):
        r = all(bool_val(x, env) for x in a.args)
    elif isinstance(a, Op) and a.op in ("|", "or"):
        r = any(bool_val(x, env) for x in a.args)
    elif isinstance(a, Op) and a.op == "^":
        r = False
        for x in a.args:
            r ^= bool_val(x, env)
    elif isinstance(a, Const):
        r = bool(a.v)
    else:
        r = env[key(a)]
    return r if p else (not r)


def implies(premises, consequents, max_atoms=18):
    """Truth-table check: under every assignment of the atoms that makes all `premises` true, are all `consequents` true?
    -> (True, None) | (False, counterexample {atom: bool}) | (None, reason) when there are too many atoms.
    Atoms are treated as independent (sound for refutation only when the counterexample is consistent: callers pass mutual-exclusion facts
    as extra premises where needed)."""
    import itertools
    atoms = set()
    for t in list(premises) + list(consequents):
        bool_atoms(t, atoms)
    atoms = sorted(atoms)
    if len(atoms) > max_atoms:
        return None, "too many atoms (%d)" % len(atoms)
    for bits in itertools.product((False, True), repeat=len(atoms)):
        env = dict(zip(atoms, bits))
        if all(bool_val(p, env) for p in premises) and not all(bool_val(c, env) for c in consequents):
            return False, {k_: v_ for k_, v_ in env.items()}
    return True, None


def leaf_cond(leaf):
    """the condition under which a leaf assigns a true value to a 1-bit target: its guards AND (for a non-constant value) the value"""
    ts = [c if p else Op("~", (c,)) for c, p in leaf.guards]
    if leaf.value is not None and isinstance(leaf.value, V) and not is1(leaf.value):
        ts.append(leaf.value)
    return ts



def stage_profile(view, t, stop=None, dep=0):
    """{(primitive signal key, symbolic number of register stages)}: the register-stage count on EVERY path from a primitive signal to term t (delay chains summarised as
    delay(x, N), registers, single-definition comb wires followed).  `stop(key)` may name signals to be treated as primitive.  None if too deep."""
    if dep > 14:
        return None
    if isinstance(t, Op) and t.op == "delay":
        r_ = stage_profile(view, t.args[0], stop, dep + 1)
        return None if r_ is None else {(s0, Op("+", (n0, t.args[1]))) for s0, n0 in r_}
    if isinstance(t, Op):
        out_ = set()
        for a_ in t.args:
            if isinstance(a_, Const):
                continue
            r_ = stage_profile(view, a_, stop, dep + 1)
            if r_ is None:
                return None
            out_ |= r_
        return out_
    if isinstance(t, (Obj, Sym)):
        k_ = key(t)
        if stop is not None and stop(k_):
            return {(k_, Const(0))}
        dd_ = view.drivers(t)
        if dd_ and all(d_.domain.startswith("sync") for d_ in dd_):
            out_ = set()
            for d_ in dd_:
                if not isinstance(d_.value, V):
                    continue
                r_ = stage_profile(view, d_.value, stop, dep + 1)
                if r_ is None:
                    return None
                out_ |= {(s0, Op("+", (n0, Const(1)))) for s0, n0 in r_}
            return out_
        cd_ = view.single_comb_def(t)
        if cd_ is not None and not isinstance(cd_, Const):
            return stage_profile(view, cd_, stop, dep + 1)
        if dd_ and all(d_.domain == "comb" for d_ in dd_):
            out_ = set()
            for d_ in dd_:         # a comb signal with several guarded drivers: every driver's value and guards
                for x_ in ([d_.value] if isinstance(d_.value, V) else []) + [c_ for c_, _ in d_.guards]:
                    r_ = stage_profile(view, x_, stop, dep + 1)
                    if r_ is None:
                        return None
                    out_ |= r_
            return out_
        return {(k_, Const(0))}
    return set()
