"""Term normalisation: canonical keys, conjunct sets with definition expansion, supports, linear forms."""
from fractions import Fraction

from .values import Const, Sym, Op, Obj, ListV, DictV, Comp, V, MAX_TREE, TooBig

AC = {"&", "|", "^", "+", "*", "and", "or"}


def name(t):
    if isinstance(t, Obj):
        return str(t)
    if isinstance(t, Sym):
        return t.path
    return None


def _split_cmp0(t):
    """x == 0 -> (x, False); x != 0 -> (x, True); else None"""
    if isinstance(t, Op) and t.op in ("==", "!=") and len(t.args) == 2:
        a, b = t.args
        if isinstance(a, Const) and not isinstance(b, Const):
            a, b = b, a
        if isinstance(b, Const) and isinstance(b.v, (int, bool)) and b.v == 0 and not isinstance(a, Const):
            return a, t.op == "!="
    return None


def simp(t):
    """x & 1 -> x, x | 0 -> x (constant-neutral operands of boolean connectives)."""
    if isinstance(t, Op) and t.op in ("&", "|", "and", "or") and len(t.args) == 2:
        neutral = t.op in ("&", "and")
        a, b = t.args
        for x, y in ((a, b), (b, a)):
            if isinstance(x, Const) and isinstance(x.v, (int, bool)) and not isinstance(y, Const) and bool(x.v) == neutral and \
                    (x.v in (0, 1, True, False)):
                return simp(y)
    return t


def literal(t):
    """Normalise a boolean term to (atom, polarity)."""
    pol = True
    while True:
        t = simp(t)
        if isinstance(t, Op) and t.op in ("~", "not") and len(t.args) == 1:
            t = t.args[0]
            pol = not pol
            continue
        r = _split_cmp0(t)
        if r is not None:
            t, p = r
            pol = pol if p else (not pol)
            continue
        break
    return t, pol


def key(t):
    """Canonical, order-insensitive string of a term."""
    if isinstance(t, Op):
        if t.tsize() > MAX_TREE:
            raise TooBig("a term of %d nodes when written out as a tree (limit %d): the analyser does not print or compare it" % (t.tsize(), MAX_TREE))
        if t.op in ("~", "not") or _split_cmp0(t) is not None:
            a, p = literal(t)
            return key(a) if p else "~" + key(a)
        if t.op in ("+", "-", "*", "neg"):
            l = lin(t)
            if l is not None:
                return l.key()
        if t.op in AC:
            parts = []

            def fl(x):
                if isinstance(x, Op) and x.op == t.op:
                    for y in x.args:
                        fl(y)
                else:
                    parts.append(key(x))
            fl(t)
            if t.op in ("&", "|", "and", "or"):
                parts = sorted(set(parts))
            else:
                parts = sorted(parts)
            return "(" + (" %s " % t.op).join(parts) + ")"
        if t.op in ("==", "!="):
            ks = sorted(key(a) for a in t.args)
            return "(%s %s %s)" % (ks[0], t.op, ks[1])
        if t.op in ("+", "-", "*", "//", "neg"):
            l = lin(t)
            if l is not None:
                return l.key()
        if t.op == "slice":
            return "%s[%s:%s]" % (key(t.args[0]), "" if _none(t.args[1]) else key(t.args[1]), "" if _none(t.args[2]) else key(t.args[2]))
        if t.op == "index":
            return "%s[%s]" % (key(t.args[0]), key(t.args[1]))
        return "%s(%s)" % (t.op, ", ".join(key(a) for a in t.args))
    if isinstance(t, ListV):
        return "[" + ", ".join(key(x) for x in t.items) + "]"
    if isinstance(t, DictV):
        return "{" + ", ".join("%s: %s" % (key(k), key(v)) for k, v in t.items) + "}"
    if isinstance(t, Const):
        if isinstance(t.v, bool):
            return "1" if t.v else "0"
        return repr(t.v)
    return str(t)


def _none(v):
    return isinstance(v, Const) and v.v is None


def conj(t, pol=True):
    """Flatten a boolean term into conjunct literals [(atom, polarity)] (De Morgan on negated ORs)."""
    out = []

    def rec(x, p):
        a, q = literal(x)
        p = p if q else (not p)
        if isinstance(a, Op) and a.op in ("&", "and") and p:
            for y in a.args:
                rec(y, True)
        elif isinstance(a, Op) and a.op in ("|", "or") and not p:
            for y in a.args:
                rec(y, False)
        elif isinstance(a, Const) and isinstance(a.v, (int, bool)) and bool(a.v) == p:
            pass  # constant true conjunct
        else:
            out.append((a, p))
    rec(t, pol)
    return out


def disj(t, pol=True):
    """Flatten into disjunct literals."""
    return [(a, not p) for a, p in conj(t, not pol)]


def as_disj(a, p):
    """A literal as a disjunction of literals, or None: (x|y, +) -> [x, y];  (x&y, -) -> [~x, ~y]."""
    if p and isinstance(a, Op) and a.op in ("|", "or"):
        return disj(a)
    if (not p) and isinstance(a, Op) and a.op in ("&", "and"):
        return [(x, not q) for x, q in conj(a)]
    return None


def lkey(lit):
    a, p = lit
    return key(a) if p else "~" + key(a)


def litset(lits):
    return {lkey(l) for l in lits}


def support(t, acc=None):
    """Names of the leaf signals / symbols a term depends on."""
    if acc is None:
        acc = set()
    if isinstance(t, (Obj, Sym)):
        acc.add(str(t))
    elif isinstance(t, Op):
        for a in t.args:
            support(a, acc)
    elif isinstance(t, ListV):
        for a in t.items:
            support(a, acc)
    elif isinstance(t, DictV):
        for k, v in t.items:
            support(k, acc)
            support(v, acc)
    elif isinstance(t, Comp):
        support(t.elt, acc)
        support(t.it, acc)
    return acc


def subterms(t):
    yield t
    if isinstance(t, Op):
        for a in t.args:
            yield from subterms(a)
    elif isinstance(t, ListV):
        for a in t.items:
            yield from subterms(a)
    elif isinstance(t, Comp):
        yield from subterms(t.elt)


def resolve_phi(t, decide):
    """Replace phi/ifexp nodes whose condition `decide(cond)` answers (True/False); others stay."""
    if isinstance(t, Op):
        if t.op in ("phi", "ifexp"):
            c = t.args[0]
            d = decide(c)
            if d is True:
                return resolve_phi(t.args[1], decide)
            if d is False:
                return resolve_phi(t.args[2], decide)
        return Op(t.op, tuple(resolve_phi(a, decide) for a in t.args))
    if isinstance(t, ListV):
        return ListV([resolve_phi(a, decide) for a in t.items], t.tup)
    return t


# ---------------------------------------------------------------------------------------------------
# linear arithmetic over configuration symbols
# ---------------------------------------------------------------------------------------------------

class Lin:
    """Polynomial with Fraction coefficients over opaque atoms (canonical keys)."""

    def __init__(self, terms=None):
        self.t = {k: v for k, v in (terms or {}).items() if v != 0}   # monomial (tuple of atom keys) -> coeff

    @staticmethod
    def const(c):
        return Lin({(): Fraction(c)})

    @staticmethod
    def atom(k):
        return Lin({(k,): Fraction(1)})

    def __add__(self, o):
        r = dict(self.t)
        for k, v in o.t.items():
            r[k] = r.get(k, 0) + v
        return Lin(r)

    def __neg__(self):
        return Lin({k: -v for k, v in self.t.items()})

    def __sub__(self, o):
        return self + (-o)

    def __mul__(self, o):
        r = {}
        for k1, v1 in self.t.items():
            for k2, v2 in o.t.items():
                k = tuple(sorted(k1 + k2))
                r[k] = r.get(k, 0) + v1 * v2
        return Lin(r)

    def is_const(self):
        return all(k == () for k in self.t)

    def constval(self):
        return self.t.get((), Fraction(0))

    def key(self):
        if not self.t:
            return "0"
        parts = []
        for k in sorted(self.t):
            c = self.t[k]
            if k == ():
                parts.append(str(c))
            else:
                m = "*".join(k)
                parts.append(m if c == 1 else "%s*%s" % (c, m))
        return "lin(" + " + ".join(parts) + ")"

    def __eq__(self, o):
        return isinstance(o, Lin) and self.t == o.t

    def __hash__(self):
        return hash(self.key())

    def atoms(self):
        s = set()
        for k in self.t:
            s.update(k)
        return s


def lin(t):
    """Linear/polynomial normal form of an arithmetic term, or None if it is not arithmetic."""
    if isinstance(t, Const):
        if isinstance(t.v, bool):
            return Lin.const(int(t.v))
        if isinstance(t.v, int):
            return Lin.const(t.v)
        if isinstance(t.v, float):
            return Lin.const(Fraction(t.v).limit_denominator(10 ** 12))
        return None
    if isinstance(t, (Sym, Obj)):
        return Lin.atom(str(t))
    if isinstance(t, Op):
        if t.op in ("+", "-", "*") and len(t.args) == 2:
            a, b = lin(t.args[0]), lin(t.args[1])
            if a is None or b is None:
                return None
            return a + b if t.op == "+" else a - b if t.op == "-" else a * b
        if t.op == "neg":
            a = lin(t.args[0])
            return -a if a is not None else None
        if t.op == "/" and len(t.args) == 2:
            a, b = lin(t.args[0]), lin(t.args[1])
            if a is not None and b is not None and b.is_const() and b.constval() != 0:
                return a * Lin.const(1 / b.constval())
        # opaque atom (ceil(...), max(...), log2_int(...), len(...), slices ...)
        return Lin.atom(_atomkey(t))
    return None


def _atomkey(t):
    if isinstance(t, Op) and t.op not in ("+", "-", "*", "neg"):
        if t.op in AC or t.op in ("~", "not", "==", "!=", "slice", "index"):
            return key(t)
        return "%s(%s)" % (t.op, ", ".join(key(a) for a in t.args))
    return key(t)


def lin_eq(a, b):
    la, lb = lin(a), lin(b)
    return la is not None and lb is not None and la == lb


def lin_diff(a, b):
    """a - b as Lin or None."""
    la, lb = lin(a), lin(b)
    if la is None or lb is None:
        return None
    return la - lb


def lin_ge(a, b):
    """True if a >= b is provable (difference is a non-negative constant, or only adds ceil/max slack
    terms known to be >= their argument); False if provably a < b by a constant; None otherwise."""
    d = lin_diff(a, b)
    if d is None:
        return None
    if d.is_const():
        return d.constval() >= 0
    return None
